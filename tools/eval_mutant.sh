#!/bin/bash
# usage: eval_mutant.sh <name> <source dir with patch.diff demo_test.go> <demo package dir rel. to repo> <tier> <PROP>...
# Verifies a seeded change in a scratch worktree (builds, suite passes, demo fails with / passes without)
# and runs the given checks against it.
set -u
NAME=$1; SRC=$2; DEMODIR=$3; TIER=$4; shift 4
export GOFLAGS=-mod=mod GOPROXY=off
WT=/tmp/evalwt-$NAME
cd /repo && git worktree remove --force $WT 2>/dev/null; git worktree add -q $WT HEAD || exit 2
cd $WT
cp $SRC/demo_test.go $DEMODIR/zz_demo_test.go
DEMO_CLEAN=$(go test -count=1 ./$DEMODIR/ 2>&1 | tail -1)
rm $DEMODIR/zz_demo_test.go
git apply $SRC/patch.diff || { echo "PATCH DOES NOT APPLY"; exit 2; }
BUILD=$(go build ./... 2>&1 | tail -1)
SUITE=$(go test -count=1 ./... 2>&1 | grep -v "^ok\|no test files" | head -3)
cp $SRC/demo_test.go $DEMODIR/zz_demo_test.go
DEMO_MUT=$(go test -count=1 ./$DEMODIR/ 2>&1 | tail -1)
rm $DEMODIR/zz_demo_test.go
echo "demo on clean tree : $DEMO_CLEAN"
echo "build with change  : ${BUILD:-ok}"
echo "suite with change  : ${SUITE:-all ok}"
echo "demo with change   : $DEMO_MUT"
for P in "$@"; do
  echo "== check $P $TIER against the change"
  (cd /verif && VERIF_REPO=$WT timeout 3000 bin/check $P $TIER 2>&1 | cut -c1-300 | grep -v "^NOTE" | head -6)
done
cd /repo && git worktree remove --force $WT
