#!/usr/bin/env python3
"""store_seed.py <id> <srcdir> <property> <demo_pkg_dir> <caught_by> <needs...>  — copies a verified seeded change into /verif/seeded/<id>/"""
import sys, os, shutil, json
sid, src, prop, pkg, caught = sys.argv[1:6]
needs = " ".join(sys.argv[6:])
d = "/verif/seeded/" + sid
os.makedirs(d, exist_ok=True)
shutil.copy(os.path.join(src, "patch.diff"), d + "/patch.diff")
shutil.copy(os.path.join(src, "demo_test.go"), d + "/demo_test.go")
if os.path.exists(os.path.join(src, "notes.md")):
    shutil.copy(os.path.join(src, "notes.md"), d + "/notes.md")
meta = {
    "id": sid, "breaks_property": prop, "origin": "independent sub-agent given only the property text and a scratch worktree",
    "needs_to_manifest": needs,
    "demo": {"file": "demo_test.go", "place_in": pkg, "run": "go test -count=1 ./%s/" % pkg},
    "verified": "tools/eval_mutant.sh: patch applies to /repo HEAD in a scratch worktree, go build ok, full suite passes with the change, demo fails with the change and passes without it",
    "detected_by": caught,
}
json.dump(meta, open(d + "/meta.json", "w"), indent=1)
print("stored", d)
