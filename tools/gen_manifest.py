#!/usr/bin/env python3
"""Regenerates /verif/MANIFEST.json from checks/checks.py and checks/levels.py."""
import json, os, sys
V = os.path.dirname(os.path.dirname(os.path.abspath(__file__)))
sys.path.insert(0, os.path.join(V, "checks"))
import checks, levels

props = [json.loads(l) for l in open(os.path.join(V, "properties.jsonl"))]
m = {
    "version": 1,
    "setup_cmd": "cd /verif/engine && GOFLAGS=-mod=mod GOPROXY=off go build -o /verif/bin/symgo ./cmd/symgo && /verif/bin/symgo -selftest-simp 20 -seed 7",
    "hooks": {
        "guard": "verif",
        "enable": "harnesses and the zzverif API are injected as build overlays (go/packages Overlay for the symbolic engine, go build -overlay for native replay); the native replay binary is built with -tags verif, which turns on the one source hook (schedule point in processAsync, klog/parser/engine/schedule_point_verif.go) so that a delivery order found by the engine can be forced natively; checks never modify /repo",
        "baseline_off_cmd": "cd /repo && go test -vet=off -count=1 ./...",
        "source_commits": ["489fe59"],
        "add_only": True,
    },
    "engines": [{
        "name": "symgo", "path": "/verif/engine",
        "serves_properties": sorted(checks.CHECKS.keys()),
        "kind_free_text": "bounded symbolic executor over go/ssa of the repository's working tree: path enumeration for structure, SMT (z3 4.8.12) for data; every assertion is a solver query over all values of the symbolic inputs on its path; solver models are replayed against the natively compiled real code",
    }],
    "checks": [],
    "not_applicable": [],
    "notes": "fix: commits in /repo (genuine defects found by the checks): see known_findings.json entries with status fixed. DESIGN.md describes approach, bounds and trusted base per property.",
}
for p in props:
    pid = p["id"]
    if pid in checks.CHECKS:
        lv = levels.LEVELS[pid]
        c = {
            "property_id": pid,
            "quick_cmd": "/verif/bin/check %s quick" % pid,
            "thorough_cmd": "/verif/bin/check %s thorough" % pid,
            "evidence_file": "/verif/evidence/%s.json" % pid,
            "replay_cmd_template": "/verif/bin/check %s --replay {path}" % pid,
            "engine": "symgo",
            "level_claimed": {"category": "model_checking", "text": lv["text"], "design_ref": lv.get("design_ref", "DESIGN.md §5 " + pid)},
            "level_note": lv["note"],
            "technique": lv.get("technique", "bounded symbolic execution of the real code (go/ssa) with SMT-decided assertions (z3), models replayed natively"),
        }
        m["checks"].append(c)
    else:
        m["not_applicable"].append({"property_id": pid, "reason": levels.NOT_APPLICABLE.get(pid, "check not built yet in this session (engine reach is described in DESIGN.md); not claimed")})
json.dump(m, open(os.path.join(V, "MANIFEST.json"), "w"), indent=1)
print("checks:", [c["property_id"] for c in m["checks"]])
