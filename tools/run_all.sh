#!/bin/bash
# runs every registered check of one tier sequentially and prints the verdict lines
TIER=${1:-quick}
cd /verif
for p in $(python3 -c "import json;print(' '.join(c['property_id'] for c in json.load(open('MANIFEST.json'))['checks']))"); do
  S=$(date +%s)
  OUT=$(bin/check $p $TIER 2>&1); RC=$?
  echo "$p rc=$RC $(( $(date +%s) - S ))s :: $(echo "$OUT" | grep -v '^NOTE' | grep 'check \|VIOLATION\|INCOMPLETE\|MISMATCH\|KNOWN' | cut -c1-260 | head -4 | tr '\n' '|')"
done
