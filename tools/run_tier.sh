#!/bin/bash
# usage: run_tier.sh <tier> [PROP...]  - runs the registered checks of one tier sequentially from the directory this
# script lives in (so it also works inside a `vp run` snapshot), each under a time limit, and prints the verdict lines
TIER=${1:-quick}; shift
cd "$(dirname "$0")/.."
PROPS="$@"
[ -z "$PROPS" ] && PROPS=$(python3 -c "import json;print(' '.join(c['property_id'] for c in json.load(open('MANIFEST.json'))['checks']))")
for p in $PROPS; do
  S=$(date +%s)
  OUT=$(timeout ${LIMIT:-3600} bin/check $p $TIER 2>&1); RC=$?
  echo "$p rc=$RC $(( $(date +%s) - S ))s :: $(echo "$OUT" | grep -v '^NOTE' | grep 'check \|VIOLATION\|INCOMPLETE\|MISMATCH\|KNOWN' | cut -c1-260 | head -4 | tr '\n' '|')"
done
