"""Claim texts for MANIFEST.json (level_claimed.text / level_note) per property."""

BASE_NOTE = ("Trusted: go/ssa construction, the symgo interpreter and its library models (regexp via regexp/syntax programs, fmt digits, "
             "bytealg, strings.Builder, UTF-8 decoding, sort swapper, JSON encoder stub), the term simplifier (self-tested against z3 in setup_cmd), "
             "z3 4.8.12. Every run validates path witnesses against the natively compiled real code (observe values must agree) and replays every "
             "counterexample natively before reporting it. Nothing outside the stated bounds is claimed.")

LEVELS = {
    "C16": {
        "text": "Bounded symbolic model checking of the real literal code: for every byte string within the length bounds (all 256 values per byte) "
                "acceptance by NewTimeFromString/NewDurationFromString/NewDateFromString is proven equivalent to reference recognisers written from "
                "Specification.md, with equal denotations; round trips, Plus and range arithmetic are proven for all values (dates per century window, "
                "covering years 0000-9999 in the thorough tier). The solver decides each assertion for all inputs of a path at once - the rare accepted "
                "strings among 256^n are found by the solver, not sampled.",
        "note": BASE_NOTE + " Date arithmetic (time.Date / civil) is executed from the standard library's SSA; wide mul/div nodes over small-domain "
                "variables are tabulated exactly by the engine after case-splitting month/day digits.",
    },
    "C06": {
        "text": "Bounded symbolic model checking of totality: every byte string up to the bound (and digit-run templates up to 20 symbolic digits, valid "
                "prefixes with arbitrary tails) is run through parse, evaluation, printing and every error rendering; a panic, an index/slice violation, "
                "a failed type assertion or exceeding the step budget on any feasible path is a violation with a concrete replayable input.",
        "note": BASE_NOTE + " Inputs longer than the bounds are only covered through the templates; JSON text encoding is stubbed.",
    },
    "C08": {
        "text": "Bounded symbolic model checking of the line/block layer: for every byte string up to the bound, the concatenation of the returned lines "
                "equals the input (solver-proved byte equality), numbering is consecutive, each block has one run of significant lines, and no blocks are "
                "returned exactly for all-blank texts.",
        "note": BASE_NOTE,
    },
    "C02": {
        "text": "Bounded symbolic model checking of evaluation: for every shape within the bound and every value of the durations, times, shifts and "
                "should-totals, Total/ShouldTotalSum/Diff equal the specification's sums (solver-proved equalities over 64-bit integers), and --now "
                "closes exactly the closeable ranges at every minute.",
        "note": BASE_NOTE + " safemath.Add/Multiply are summarised; the summaries are proven equal to the real bodies by lemma harnesses run in the same check.",
    },
}

NOT_APPLICABLE = {}
