"""Claim texts for MANIFEST.json (level_claimed.text / level_note) per property."""

BASE_NOTE = ("Trusted: go/ssa construction, the symgo interpreter and its library models (regexp via regexp/syntax programs, fmt digits, "
             "bytealg, strings.Builder, UTF-8 decoding, sort swapper, encoding/json model, virtual file system), the term simplifier (self-tested against z3 in setup_cmd), "
             "z3 4.8.12. Every run validates path witnesses against the natively compiled real code (observe values must agree) and replays every "
             "counterexample natively before reporting it. Nothing outside the stated bounds is claimed.")

LEVELS = {
    "C16": {
        "text": "Bounded symbolic model checking of the real literal code: for every byte string within the length bounds (all 256 values per byte) "
                "acceptance by NewTimeFromString/NewDurationFromString/NewDateFromString is proven equivalent to reference recognisers written from "
                "Specification.md, with equal denotations; round trips, Plus and range arithmetic are proven for all values (dates per century window; "
                "33 of the 100 windows in the thorough tier), and writing a value out must leave it unchanged. The solver decides each assertion for all inputs of a path at once - the rare accepted "
                "strings among 256^n are found by the solver, not sampled.",
        "note": BASE_NOTE + " Date arithmetic (time.Date / civil) is executed from the standard library's SSA; wide mul/div nodes over small-domain "
                "variables are tabulated exactly by the engine after case-splitting month/day digits.",
    },
    "C06": {
        "text": "Bounded symbolic model checking of totality: every byte string up to the bound (and digit-run templates up to 20 symbolic digits, valid "
                "prefixes with arbitrary tails) is run through parse, evaluation, printing and every error rendering, and every read-only command with its warnings runs on files at the edges of the calendar; a panic, an index/slice violation, "
                "a failed type assertion or exceeding the step budget on any feasible path is a violation with a concrete replayable input.",
        "note": BASE_NOTE + " Inputs longer than the bounds are only covered through the templates.",
    },
    "C08": {
        "text": "Bounded symbolic model checking of the line/block layer: for every byte string up to the bound, the concatenation of the returned lines "
                "equals the input (solver-proved byte equality), numbering is consecutive, each block has one run of significant lines, and no blocks are "
                "returned exactly for all-blank texts.",
        "note": BASE_NOTE,
    },
    "C02": {
        "text": "Bounded symbolic model checking of evaluation: for every shape within the bound and every value of the durations, times, shifts and "
                "should-totals, Total/ShouldTotalSum/Diff equal the specification's sums (solver-proved equalities over 64-bit integers), and --now "
                "closes exactly the closeable ranges at every minute.",
        "note": BASE_NOTE + " safemath.Add/Multiply are summarised; the summaries are proven equal to the real bodies by lemma harnesses run in the same check.",
    },
}

LEVELS["C15"] = {
    "text": "Bounded symbolic model checking of the calendar code (klog.Date on top of civil/time from the Go standard library, executed from SSA): for every date of each "
            "century window the weekday, ISO week and week-year, quarter, day stepping, the four kinds of periods and their predecessors are proven equal to "
            "independent closed-form references; bucket hashes are proven injective on their fields for the full value range in single queries; every pattern "
            "string is accepted iff it denotes an existing period. The windows are decades around the ends of the range, the 400-year rule, 1900, 2000 and further century years.",
    "note": BASE_NOTE + " Month and day are case-split by the engine; per (month, day) the year is symbolic over its window and the standard library's "
            "Neri-Schneider arithmetic is tabulated exactly over the year.",
}
LEVELS["C17"] = {
    "text": "Bounded symbolic model checking of the clock-relative commands: hour and minute of the clock are symbolic (all 1440 minutes in one path family), "
            "cli.Start/cli.Stop run for every rounding, date selection and file layout; success iff the rounded time is representable relative to the target "
            "record, the written time equals the rounding oracle, failures leave the file untouched, and no path panics.",
    "note": BASE_NOTE + " Commands are driven at Run(ctx) level with a harness app.Context (kong/argument parsing is outside).",
}

LEVELS["C07"] = {
    "text": "Bounded symbolic model checking of the parallel engine against the serial one: all bytes of the text are symbolic (chunk boundaries inside lines, CRLF and "
            "multi-byte sequences are reached through the solver-decided UTF-8 classes), every worker count within the bound and every delivery order of the batch results "
            "(engine scheduler: all w! orders) are explored; values, blocks, line numbering and errors must be equal. Longer texts are built from lines (blank / short / long / error lines x LF / CRLF).",
    "note": BASE_NOTE + " Concurrency is modelled at delivery granularity only (coroutine scheduler); data races between statements are outside.",
}

LEVELS["C01"] = {
    "text": "Bounded symbolic model checking of the parser against references written from Specification.md, in three layers: literals (C16 harnesses), single "
            "lines (headline and entry line followed by arbitrary bytes; range templates with symbolic digits), and line structure (all kind sequences of up to "
            "4/5 lines incl. every rule violation named by the property, digits and summary bytes symbolic). Acceptance must coincide with the reference on both "
            "sides of a stated don't-care band and accepted records must carry exactly the denoted dates, should-totals, summaries, entry kinds and values. Summary lines of arbitrary bytes are "
            "checked two-sided against the specification's blank-character class (tab, Unicode Zs).",
    "note": BASE_NOTE + " Structure is path-enumerated by the document generator (honest split: the solver decides the data inside the lines and the arbitrary tails).",
}
LEVELS["C10"] = {
    "text": "Bounded symbolic model checking of error reporting: for every generated document with an injected rule violation the first error must be on the faulty line "
            "(as computed by the reference automaton), every error must quote an existing line with position+length inside it, in ascending order, identically for serial "
            "and parallel parsing in every delivery order; the terminal rendering must equal, byte for byte, a rendering built from the reported line, position and length, and the JSON text must carry the same numbers and messages.",
    "note": BASE_NOTE,
}
LEVELS["C09"] = {
    "text": "Bounded symbolic model checking of the print round trip: for every conforming generated document, parse(print(parse(x))) denotes the same records with the same "
            "notation and print(parse(print(parse(x)))) == print(parse(x)); the re-parse runs on the symbolic printed text, so digits and summary bytes are covered for all values; one-record files with symbolic literals and arbitrary summary bytes go through the same pipeline and are compared through accessors, not through ToString.",
    "note": BASE_NOTE,
}

_MUT_NOTE = BASE_NOTE + " Commands are driven at cli.<Command>.Run(ctx) level with a harness app.Context that mirrors ReconcileFile; the real reconciler, parser and serialiser code runs from SSA."
LEVELS["C03"] = {
    "text": "Bounded symbolic model checking of the reconciler's text edits: for every conforming initial file within the bound and every command, the line vectors before and after are "
            "compared independently of klog's line code - all original lines survive byte-for-byte and in order, added lines form one block at the expected position, only the "
            "open-range / pause line is rewritten (text before the placeholder kept). Digits, summary bytes and times are symbolic.",
    "note": _MUT_NOTE,
}
LEVELS["C04"] = {
    "text": "Bounded symbolic model checking of the commands' effect: one inductive step of each command from every conforming file of the bound (every command re-reads the file, so "
            "one step from an arbitrary valid file covers histories of any length for the shapes within the bound), explicit histories of 2-4 commands, and the pause loop driven "
            "for 1-3 ticks with symbolic / boundary clock increments; after every step parse(file) must equal the abstract model, and rejected commands must change nothing.",
    "note": _MUT_NOTE,
}
LEVELS["C05"] = {
    "text": "Bounded symbolic model checking of atomicity: every path through the harness mirror of ReconcileFile and, for a core set of cases, through the real app.Context on the virtual file system - invalid target files (every injected rule violation), failing "
            "first or second step of multi-step commands, results that would not parse - must end with the file bytes unchanged and a non-zero error code; every success must "
            "leave a file that parses.",
    "note": _MUT_NOTE + " The process exit status is outside (kong/reflection).",
}
LEVELS["C11"] = {
    "text": "Bounded symbolic model checking of style selection: inserted lines must use the target record's indentation and line ending, else the unanimous style of the other "
            "records (with disagreement: a style that some record uses), else LF + 4 spaces; generated dates and times must follow the date separator, clock convention, dash spacing and placeholder length by the same rule unless an explicit value or a configured preference is given; every command is executed twice with every iteration order of Go maps explored by the engine and must produce identical bytes; results must parse.",
    "note": _MUT_NOTE,
}

LEVELS["C12"] = {
    "text": "Bounded symbolic model checking of the report views: for every selection of records on calendar-boundary dates and all (symbolic) totals, the rows of each aggregation "
            "partition the records by calendar period, sum to the grand total (solver-proved sums), are chronological, filled gaps contribute nothing, klog today's split adds up and print --with-totals carries the record and entry values; "
            "the bucket rule for all dates comes from the C15 harnesses included in this check.",
    "note": BASE_NOTE + " Composition is checked on boundary dates only; rendering is outside.",
}
LEVELS["C13"] = {
    "text": "Bounded symbolic model checking of service.Filter and service.Sort: symbolic dates and durations, path-enumerated tag / entry-type combinations; the result must be exactly "
            "the reference selection, unaltered and in input order; Sort must be an ordered permutation (real pdqsort code) whatever notation the dates were written in; the relative shortcuts (this/last week ... year, today/yesterday/tomorrow, after/before) "
            "are composed through FilterArgs.ApplyFilter for every reference date of the windows.",
    "note": BASE_NOTE,
}
LEVELS["C14"] = {
    "text": "Bounded symbolic model checking of tag recognition: every ASCII summary up to the bound (as one line and split into two lines at every position) is scanned by klog (regexp model over the real syntax.Prog) and by an independent "
            "scanner written from the specification - same (name, value) list; bare-name matching and per-tag totals are proven for symbolic durations.",
    "note": BASE_NOTE,
}
LEVELS["C18"] = {
    "text": "Bounded symbolic model checking of styling: each evaluation command runs twice in one path (theme vs no_colour) on a file with symbolic summary bytes; stripping SGR "
            "sequences must give identical text and table rows must have equal visible width.",
    "note": BASE_NOTE + " One file template; commands driven at Run(ctx) level.",
}

LEVELS["C20"] = {
    "text": "Bounded symbolic model checking of `klog json`: json.ToJson runs from SSA; encoding/json is an engine model driven by klog's own struct declarations and tags that emits the JSON "
            "TEXT as byte terms; a reference JSON reader (RFC 8259) inside the harness must accept the text and find exactly the documented keys and the values the parsed records / errors "
            "denote, for every generated document within the bound and for records with symbolic times and durations.",
    "note": BASE_NOTE + " encoding/json itself is a hand-written model (trusted, validated natively per witness against the real library).",
}

LEVELS["C19"] = {
    "text": "Bounded symbolic model checking of the bookmark database: the real bookmarks commands and the real app.Context run on the engine's virtual file system, bookmarks.json is written "
            "and read back as JSON text through the engine's encoding/json model; one step from every stored database within the bound must leave exactly the model map (name "
            "normalisation computed independently of klog incl. @/@@ prefixes, embedded and trailing @, quote and backslash, the default name; overwrite; failing unset leaves the file "
            "bytes unchanged; clear), the listed names must be exactly the model's in order, and @name arguments must resolve through the real FileRetriever. Names are symbolic bytes.",
    "note": BASE_NOTE + " encoding/json itself is a hand-written model (trusted, validated natively per witness against the real library).",
}

NOT_APPLICABLE = {}
