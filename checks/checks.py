"""Per-property harness sets, bounds and trusted base (read by bin/check)."""

K = "github.com/jotaen/klog/klog"

COMMON_ASSUME = [
    "64-bit int; single process; UTC",
    "strings have a concrete length per job; every byte is an unconstrained symbolic 8-bit value unless the harness states otherwise",
    "package-level variables of klog are immutable after initialisation (initialisers are run once, concretely)",
    "SMT verdicts are z3 4.8.12's; any (error line or unknown makes the obligation undecided (never counted as success)",
    "the engine's term simplifier (interval analysis, narrowing, linear div/rem rules) is validated by setup_cmd's self-test: random expressions under random path constraints, simplified vs. unsimplified, proven equal by z3",
]

MODELS = {
    "regexp": "regexp.*: pattern compiled by Go's regexp/syntax to the real syntax.Prog, executed by the engine's leftmost-first backtracking matcher over symbolic runes",
    "fmt": "fmt.Sprintf/Sprint for %d %v %s %c with flags 0,- and width (digits of symbolic integers by div/mod, forking on digit count)",
    "bytealg": "internal/bytealg Index*/Count*/Equal/Compare (assembly) as direct definitions over byte vectors",
    "builder": "strings.Builder (unsafe) as a byte vector; strings.Repeat/ToLower/ToUpper (ASCII exact)",
    "utf8": "range-over-string / []rune / utf8.Decode*: engine decoder forking on the UTF-8 encoding class",
    "itoa": "strconv.Itoa via the same digit generator as %d",
    "sort": "sort.Slice: real pdqsort_func SSA with an engine swapper",
    "json": "encoding/json (reflection-driven, not executable): engine model jsonmodel.go - (*Encoder).Encode walks the value along its go/types type (struct tags with omitempty / `-`, embedded-struct field dominance, pointers, interfaces, slices, string-keyed maps, string escaping as encodeState.string incl. SetEscapeHTML, SetIndent layout, integers, booleans, concrete floats) and emits the text as byte terms; Unmarshal / Valid: syntax check then typed decoding for the same shapes; Marshaler types, []byte, `,string`, decoding into interface{} are engine errors",
    "tabulate": "wide mul/div/rem nodes over small-domain variables are replaced by exact lookup tables computed by the engine's evaluator (after case-splitting the other variables where the job allows it)",
}


def job(h, pkg=K, **params):
    j = {"harness": pkg + "." + h, "params": {}}
    for k, v in params.items():
        if k == "_split":
            j["max_split"] = v
        elif k == "_paths":
            j["max_paths"] = v
        else:
            j["params"][k] = v
    return j


def lemmas():
    return [job("ZZ_Lemma_SafemathAdd"), job("ZZ_Lemma_SafemathMul")]


# ---------------------------------------------------------------- C16
def c16_jobs(tier):
    js = []
    for n in range(0, 9 + 1):
        js.append(job("ZZ_C16_TimeAccept", n=n))
    for h in ["ZZ_C16_TimeRoundtrip", "ZZ_C16_TimePlus", "ZZ_C16_Range", "ZZ_C16_Equivalences",
              "ZZ_C16_DurationRoundtrip", "ZZ_C16_DurationArith", "ZZ_C16_DurationCanonical"]:
        js.append(job(h))
    for n in range(0, 6 + 1):
        js.append(job("ZZ_C16_DurationAccept", n=n))
    for n in ([9, 11] if tier == "quick" else [0, 1, 5, 8, 9, 11, 12]):
        js.append(job("ZZ_C16_DateAccept", n=n))
    # thorough: every 4th century plus both ends of the range, the 400-year rule boundaries and 1900-2199
    windows = [0, 3, 19, 20, 99] if tier == "quick" else sorted(set(list(range(0, 100, 8)) + [1, 3, 15, 16, 19, 20, 99]))
    for c in windows:
        js.append(job("ZZ_C16_DateAccept", n=10, century=c, _split=65536))
        js.append(job("ZZ_C16_DateRoundtrip", century=c, _split=65536))
    return js + lemmas()


# ---------------------------------------------------------------- C06
U = K + "/app/cli/util"


def c06_jobs(tier):
    js = []
    for n in range(0, 5 + 1):
        js.append(job("ZZ_C06_TotalShort", U, n=n))
    for p in range(5):
        js.append(job("ZZ_C06_TotalTail", U, n=3, prefix=p))
    for shape in [0, 1, 2, 3, 5]:
        js.append(job("ZZ_C06_Digits", U, n=12, shape=shape))
    # the 19-digit band where hours*60 overflows although both numbers parse
    js.append(job("ZZ_C06_Digits", U, n=19, shape=0))
    js.append(job("ZZ_C06_Digits", U, n=19, shape=2))
    if tier == "thorough":
        pass  # (4-byte tails and the other 19-digit shapes did not finish in time; the 20-digit jobs below are the thorough extra)
        js.append(job("ZZ_C06_Digits", U, n=20, shape=0))
        js.append(job("ZZ_C06_Digits", U, n=20, shape=2))
    js.append(job("ZZ_C06_Digits", U, n=4, shape=4))
    js.append(job("ZZ_C06_EvalTotal", U))
    # every read-only command incl. its warnings on files at the edges of the calendar with day-shifted entries
    for cmd in range(6):
        js.append(job("ZZ_C06_Commands", K + "/app/cli", cmd=cmd))
    return js + lemmas()


# ---------------------------------------------------------------- C08
E = K + "/parser/engine"


def c08_jobs(tier):
    js = [job("ZZ_C08_Lossless", E, n=n) for n in range(0, (5 if tier == "quick" else 7) + 1)]
    for L in range(1, (3 if tier == "quick" else 4) + 1):
        for f, r in FMT_ROT_QUICK:
            js.append(job("ZZ_C08_NoopReconcile", U, L=L, fmt=f, rot=r))
    return js


# ---------------------------------------------------------------- C01 / C10 / C09 (parser family)
PZ = K + "/parser"
FMT_ROT_QUICK = [(0, 0), (1, 1), (2, 2)]
FMT_ROT_ALL = [(f, r) for f in range(3) for r in range(4)]


def c01_jobs(tier):
    js = []
    q = tier == "quick"
    for n in range(0, 5 + 1):
        for ending in ([0] if n > 3 else [0, 1, 2]):
            js.append(job("ZZ_C01_Headline", PZ, n=n, ending=ending))
    for n in range(1, 6 + 1):
        for indent in range(4):
            if n > 4 and indent != n % 4:
                continue
            js.append(job("ZZ_C01_Entry", PZ, n=n, indent=indent, ending=(n + indent) % 3))
    js.append(job("ZZ_C01_RangeTemplate", PZ, full=0, open=0))
    js.append(job("ZZ_C01_RangeTemplate", PZ, full=0, open=1))
    for L in range(1, 4 + 1):
        combos = FMT_ROT_QUICK if q else FMT_ROT_ALL
        if L == 5:
            continue
        if q and L == 4:
            combos = [(0, 1)]
        elif L == 4:
            combos = [(0, 1), (1, 2), (2, 3), (1, 0)]
        for f, r in combos:
            js.append(job("ZZ_C01_Structure", PZ, L=L, faults=1, fmt=f, rot=r))
    # summary lines vs the specification's blank characters (tab, Unicode Zs): arbitrary bytes
    for n in range(1, (5 if q else 7) + 1):
        for kind in (0, 1):
            js.append(job("ZZ_C01_SummaryLine", PZ, n=n, kind=kind))
    # literals (shared with C16): a thin slice so that C01 stands on its own
    for n in [4, 5, 7]:
        js.append(job("ZZ_C16_TimeAccept", n=n))
    for c in ([0, 20] if q else [0, 20, 99]):
        js.append(job("ZZ_C16_DateAccept", n=10, century=c, _split=65536))
    return js


def c10_jobs(tier):
    js = []
    q = tier == "quick"
    for L in range(1, 4 + 1):
        combos = FMT_ROT_QUICK if q else FMT_ROT_ALL
        if L >= 4:
            combos = [(0, 1)] if q else [(0, 1), (1, 2)]
        for f, r in combos:
            js.append(job("ZZ_C10_ErrPos", U, L=L, fmt=f, rot=r, w=1 if L >= 4 else 2))
    js.append(job("ZZ_C10_ErrPos", U, L=3, fmt=1, rot=2, w=3))
    # a faulty line with arbitrary bytes behind the fault, through both renderings
    for n in range(0, (4 if q else 6) + 1):
        js.append(job("ZZ_C10_FaultyLine", U, n=n))
    return js


def c09_jobs(tier):
    js = []
    q = tier == "quick"
    for L in range(1, 3 + 1):
        combos = FMT_ROT_QUICK if q else FMT_ROT_ALL
        if L == 3:
            combos = [(1, 2)] if q else [(1, 2), (0, 0), (2, 3), (0, 1)]
        for f, r in combos:
            js.append(job("ZZ_C09_PrintRoundtrip", U, L=L, fmt=f, rot=r))
    js += [job("ZZ_C16_TimeRoundtrip"), job("ZZ_C16_DurationRoundtrip"), job("ZZ_C16_DateRoundtrip", century=20, _split=65536)]
    # value-level print round trip through the whole pipeline (parse -> print -> parse -> print)
    for kind in (0, 1, 2):
        js.append(job("ZZ_C09_PrintValues", U, kind=kind))
    for n in ([1, 2, 3] if q else [1, 2, 3, 4, 5]):
        js.append(job("ZZ_C09_PrintValues", U, kind=3, n=n))
    for c in ([0, 9, 20] if q else [0, 5, 9, 10, 19, 20, 99]):
        js.append(job("ZZ_C09_PrintValues", U, kind=4, century=c, _split=65536))
    return js


# ---------------------------------------------------------------- C07
def c07_jobs(tier):
    js = []
    for n in range(0, 4 + 1):
        for w in range(1, min(n + 2, 4) + 1):
            js.append(job("ZZ_C07_ParEquiv", E, n=n, w=w))

    # longer texts built from lines (blank / short / long / error lines x LF / CRLF): chunk boundaries at every
    # position relative to blank lines and CR LF pairs (added after finding F9)
    lines = [(6, 2, 0, 0), (5, 3, 1, 0), (5, 2, 1, 1)] if tier == "quick" else \
        [(6, 2, 0, 0), (5, 3, 1, 0), (5, 2, 1, 1), (6, 2, 1, 1), (5, 3, 0, 1), (4, 4, 1, 1)]
    for L, w, op, al in lines:
        js.append(job("ZZ_C07_Lines", E, L=L, w=w, open=op, alpha=al))
    # the real record parser on generated documents (valid and invalid)
    for L, w in ([(2, 2), (3, 2), (3, 3)]):
        js.append(job("ZZ_C07_RealParse", U, L=L, fmt=L % 3, rot=w % 4, faults=1, w=w))
    return js


# ---------------------------------------------------------------- C02
S = K + "/service"


def c02_jobs(tier):
    js = [job("ZZ_C02_EvalNow", S), job("ZZ_C02_EvalNowMany", S)]
    shapes = [(1, 1), (1, 2), (2, 1)]
    for nrec, nent in shapes:
        js.append(job("ZZ_C02_Eval", S, nrec=nrec, nent=nent))
    for L in range(1, 3 + 1):
        js.append(job("ZZ_C02_EvalText", U, L=L, fmt=L % 3, rot=L % 4))
        if tier == "thorough":
            js.append(job("ZZ_C02_EvalText", U, L=L, fmt=(L + 1) % 3, rot=(L + 2) % 4))
    return js + lemmas()


# ---------------------------------------------------------------- C15
P = K + "/service/period"


def c15_jobs(tier):
    js = [job("ZZ_C15_Hashes", P)]
    # decade windows around the interesting years (0000, the 400-year rule, 1900, 2000, 9999)
    windows = [(0, 10), (395, 10), (1895, 10), (1996, 10), (9990, 10)]
    pat_windows = [20]
    if tier == "thorough":
        # plus further decade windows (century years that are / are not leap years, mid-range)
        windows += [(95, 10), (1595, 10), (2095, 10), (2395, 10), (4995, 10), (7995, 10)]
    for frm, span in windows:
        js.append(job("ZZ_C15_DateFacts", P, **{"from": frm, "span": span, "_split": 65536}))
        js.append(job("ZZ_C15_Week", P, **{"from": frm, "span": span, "_split": 65536}))
        js.append(job("ZZ_C15_MonthQuarterYear", P, **{"from": frm, "span": span, "_split": 65536}))
    for c in pat_windows:
        for n in [4, 7]:
            js.append(job("ZZ_C15_Pattern", P, n=n, century=c, _split=65536))
    for n in [0, 1, 2, 3, 5, 6, 9]:
        js.append(job("ZZ_C15_Pattern", P, n=n, century=20))
    return js


# ---------------------------------------------------------------- C17
C = K + "/app/cli"


def c17_jobs(tier):
    js = []
    days = [0] if tier == "quick" else [0, 2, 3]
    rounds = [0, 1, 7] if tier == "quick" else [0, 1, 3, 5, 7]
    for d in days:
        for r in rounds:
            for sel in range(4):
                for layout in range(2):
                    js.append(job("ZZ_C17_Start", C, day=d, round=r, sel=sel, layout=layout))
            for layout in range(5):
                js.append(job("ZZ_C17_Stop", C, day=d, round=r, layout=layout))
    js += [job("ZZ_C02_EvalNow", S), job("ZZ_C02_EvalNowMany", S)]
    return js + lemmas()


# ---------------------------------------------------------------- C03 / C04 / C05 / C11 (mutating commands)
A_C03 = ["template-is-valid", "original-lines-survive-unchanged", "entry-inserted-after-the-records-last-line", "one-line-per-entry-line",
         "other-lines-survive-byte-for-byte", "final-line-only-gains-a-line-ending", "text-before-placeholder-kept",
         "value-line-ending-kept", "no-line-removed", "switch-adds-one-entry-line", "stop-adds-no-line",
         "only-the-record-lines-are-added", "one-separating-blank-line", "extend-adds-no-line",
         "pause-entry-inserted-after-the-records-last-line", "noop-reconcile-writes-identical-text", "noop-result-valid", "record-found"]
A_C04 = ["record-count", "record-date-in-file-order", "record-should-total", "record-summary-line-count", "record-summary-text",
         "entry-count", "entry-kind-and-value", "entry-summary-line-count", "entry-summary-text",
         "start-fails-iff-record-already-has-open-range", "stop-succeeds-iff-open-range-and-end-not-before-start",
         "pause-runs-iff-open-range-present", "pause-reports-error", "create-succeeds", "command-succeeds-iff-model-accepts"]
A_C05 = ["target-file-still-exists", "bytes-on-disk-are-the-validated-result", "failed-command-leaves-file-untouched", "written-file-is-valid", "track-succeeds-iff-entry-is-valid",
         "command-on-invalid-file-fails", "switch-with-failing-second-step-fails", "failure-has-nonzero-exit-code"]
A_C11 = ["inserted-line-uses-record-or-file-indentation", "inserted-line-uses-file-line-ending", "repeat-same-outcome",
         "repeat-yields-identical-bytes", "unanimous-indentation-is-used", "unanimous-line-ending-is-used", "track-on-new-date-succeeds",
         "generated-date-follows-date-separator", "generated-open-range-follows-file-notation", "generated-time-follows-clock-convention",
         "explicit-value-is-written-as-given", "config-accepted", "inserted-style-is-one-the-file-uses"]


def mut(h, L, f, r, **kw):
    kw.setdefault("nd", 6)
    if h == "ZZ_Mut_Stop":
        kw.setdefault("needOpen", 1 if L >= 3 else 0)
    return job(h, C, L=L, fmt=f, rot=r, **kw)


def c03_jobs(tier):
    q = tier == "quick"
    js = []
    for L in [1, 2]:
        for f, r in (FMT_ROT_QUICK if q else FMT_ROT_QUICK + [(1, 3), (2, 0)]):
            js.append(mut("ZZ_Mut_Track", L, f, r))
    js += [mut("ZZ_Mut_Create", 2, 1, 0), job("ZZ_Mut_Layouts", C)]
    js += [mut("ZZ_Mut_Stop", 2, 2, 3, sw=0), mut("ZZ_Mut_Stop", 3, 0, 1, sw=0, nd=2), mut("ZZ_Mut_Stop", 3, 1, 2, sw=1, nd=2)]
    js += [mut("ZZ_Mut_Pause", 2, 0, 0, ticks=1, extend=0)]
    if not q:
        js += [mut("ZZ_Mut_Start", 2, f, r) for f, r in FMT_ROT_QUICK]
        js += [mut("ZZ_Mut_Pause", 3, 2, 2, ticks=1, extend=1, tab=1, nd=2), mut("ZZ_Mut_Create", 2, 2, 3)]
    for L in range(1, (3 if q else 4) + 1):
        js.append(job("ZZ_C08_NoopReconcile", U, L=L, fmt=L % 3, rot=L % 4))
    return js


def c04_jobs(tier):
    q = tier == "quick"
    js = [mut("ZZ_Mut_Start", 2, 0, 2, nd=3, resume=1), mut("ZZ_Mut_Stop", 3, 1, 0, sw=0, nd=2), mut("ZZ_Mut_Stop", 3, 2, 1, sw=1, nd=2),
          mut("ZZ_Mut_Track", 2, 1, 1), mut("ZZ_Mut_Create", 2, 0, 3),
          mut("ZZ_Mut_Pause", 2, 1, 1, ticks=2, extend=0), mut("ZZ_Mut_Pause", 2, 0, 2, ticks=1, extend=0),
          mut("ZZ_Mut_Pause", 3, 0, 0, ticks=1, extend=1, nd=2),
          mut("ZZ_Mut_History", 2, 1, 1, steps=2, nd=2), mut("ZZ_Mut_History", 1, 0, 0, steps=3), job("ZZ_Mut_Layouts", C)]
    if not q:
        js += [mut("ZZ_Mut_Start", 2, 1, 3, nd=3), mut("ZZ_Mut_Track", 2, 2, 3), mut("ZZ_Mut_Create", 2, 1, 2)]
    return js


def c05_jobs(tier):
    q = tier == "quick"
    js = []
    for L in [1, 2, 3]:
        js.append(mut("ZZ_Mut_InvalidTarget", L, L % 3, L % 4))
    if not q:
        js += [mut("ZZ_Mut_InvalidTarget", 2, 0, 3), mut("ZZ_Mut_InvalidTarget", 3, 1, 1)]
    js += [job("ZZ_C05_RealContext", C)]
    js += [mut("ZZ_Mut_Track", 2, 0, 0), mut("ZZ_Mut_Stop", 2, 1, 1, sw=0), mut("ZZ_Mut_Stop", 3, 2, 2, sw=1, nd=2),
           mut("ZZ_Mut_Pause", 2, 2, 3, ticks=1, extend=0), mut("ZZ_Mut_Create", 2, 1, 2)]
    if not q:
        js += [mut("ZZ_Mut_Track", 2, 2, 2)]
    return js


def c11_jobs(tier):
    q = tier == "quick"
    js = [job("ZZ_C11_Election", C), job("ZZ_Mut_Layouts", C)]
    for f, r in (FMT_ROT_QUICK if q else FMT_ROT_ALL):
        js.append(mut("ZZ_Mut_Track", 2, f, r))
    js += [mut("ZZ_Mut_Create", 2, 0, 1), mut("ZZ_Mut_Start", 2, 1, 0 if q else 3, nd=3 if q else 6)]
    if not q:
        js += [mut("ZZ_Mut_Start", 2, 2, 1, nd=3)]
    # notation of generated values: n other records x command (0 start, 1 start with explicit values, 2 stop, 3 create, 4 track)
    for n in ([0, 1] if q else [0, 1, 2]):
        for cmd in range(5):
            if n == 2 and cmd != 0:
                continue
            js.append(job("ZZ_C11_Notation", C, n=n, cmd=cmd))
    return js


# ---------------------------------------------------------------- C12 / C13 / C14 / C18
def c12_jobs(tier):
    js = []
    for agg in range(5):
        for n in [1, 2, 3]:
            js.append(job("ZZ_C12_Partition", C, n=n, agg=agg))
    js.append(job("ZZ_C15_Hashes", P))
    js.append(job("ZZ_C12_ReportVsTotal", C))
    for frm, span in ([(1996, 10)] if tier == "quick" else [(0, 10), (1895, 10), (1996, 10), (9990, 10)]):
        js.append(job("ZZ_C15_Week", P, **{"from": frm, "span": span, "_split": 65536}))
    # print --with-totals: prefix column vs plain print, record and entry values
    for L, f, r in ([(1, 0, 0), (2, 0, 0), (2, 1, 1)] if tier == "quick" else [(1, 0, 0), (2, 0, 0), (2, 1, 1), (3, 1, 1)]):
        js.append(job("ZZ_C12_PrintWithTotals", C, L=L, fmt=f, rot=r))
    return js + lemmas()


def c13_jobs(tier):
    q = tier == "quick"
    js = [job("ZZ_C13_Sort", S, n=n) for n in [1, 2, 3]]
    js += [job("ZZ_C13_Filter", S, n=n, e=1, mode=0) for n in [1, 2]]
    js += [job("ZZ_C13_Filter", S, n=1, e=2, mode=1), job("ZZ_C13_Filter", S, n=2, e=1, mode=1)]
    for sel in range(13):
        for frm, span in ([(2019, 4)] if q else [(2019, 4), (1, 4), (9995, 4)]):
            js.append(job("ZZ_C13_Shortcuts", U, **{"from": frm, "span": span, "sel": sel, "_split": 65536}))
    if not q:
        js += [job("ZZ_C13_Filter", S, n=1, e=1, mode=2)]
    return js


def c14_jobs(tier):
    q = tier == "quick"
    js = [job("ZZ_C14_TagScan", n=n) for n in range(0, 6 + 1)]
    js += [job("ZZ_C14_TagTotals", S, n=1, e=2, mode=1), job("ZZ_C14_TagTotals", S, n=2, e=1, mode=1)]
    # the same bytes as a two-line summary split at every position (values must be closed on their own line)
    js += [job("ZZ_C14_TagScan", n=n, lines=2) for n in ([4, 5] if q else [4, 5, 6])]
    if not q:
        js += [job("ZZ_C14_TagTotals", S, n=2, e=2, mode=1), job("ZZ_C14_TagTotals", S, n=1, e=3, mode=1)]
    return js


def c20_jobs(tier):
    q = tier == "quick"
    js = []
    for L in [1, 2]:
        for f, r in (FMT_ROT_QUICK if q else FMT_ROT_ALL):
            js.append(job("ZZ_C20_Json", U, L=L, faults=1, pretty=(L + f) % 2, fmt=f, rot=r))
    if q:
        js.append(job("ZZ_C10_ErrPos", U, L=2, fmt=1, rot=1, w=1))
    # values with symbolic digits (times incl. 0:00 / 24:00 and day shifts, signed durations, should-total)
    js += [job("ZZ_C20_Values", U, kind=0, pretty=0, small=1), job("ZZ_C20_Values", U, kind=1, pretty=1), job("ZZ_C20_Values", U, kind=2, pretty=0),
           job("ZZ_C20_Values", U, kind=3, pretty=0), job("ZZ_C20_Values", U, kind=3, pretty=1)]
    if not q:
        js += [job("ZZ_C20_Values", U, kind=0, pretty=1, small=0)]
    return js


def c19_jobs(tier):
    if tier == "quick":
        return [job("ZZ_C19_Step", C, k=1, nb=1)]
    return [job("ZZ_C19_Step", C, k=1, nb=2), job("ZZ_C19_Step", C, k=2, nb=0)]


def c18_jobs(tier):
    return [job("ZZ_C18_Styling", C, cmd=c) for c in range(6)]


VFS_STUB = "os.ReadFile/WriteFile/OpenFile(+O_CREATE,O_TRUNC,O_APPEND,O_EXCL)/Create/Rename/Remove/Stat and *os.File Write/WriteString/Sync/Close/Truncate/Seek: in-engine virtual file system (path -> bytes); the REAL app.context (NewContext, ReconcileFile, ReadFile, WriteToFile, FileRetriever) runs on it in ZZ_C05_RealContext"
MUT_STUBS = [MODELS["regexp"], MODELS["fmt"], MODELS["utf8"], MODELS["builder"], MODELS["bytealg"],
             "app.Context: harness implementation (zzContext) that holds the target file as text and mirrors app.context.ReconcileFile (parse -> ApplyReconciler -> write only on success)",
             "time.NewTicker/signal.Notify: a tick is always ready; the harness scripts the clock and cuts the endless pause loop after k ticks",
             "map iteration order: all permutations are explored inside the determinism checks"]
MUT_ASSUME = COMMON_ASSUME + ["initial files come from the document generator (all conforming kind sequences of L lines with rotating indentation styles, LF/CRLF/missing final newline); the clock's date is one of 6 dates (three record dates, one before, between and after them)",
                              "explicit --time values have a symbolic hour and minute 05 or 50; every minute is covered by C16/C17"]

CHECKS = {
    "C16": {
        "jobs": c16_jobs,
        "bounds": {
            "quick": "time literals: every byte string of length 0..9; durations: every byte string of length 0..6 plus all values -100000..100000 min x notation flags; dates: every 10-byte string with years in century windows {00,03,19,20,99} and all strings of length 9 and 11; all (hour,minute,shift,clock) times x durations -3000..3000; all time pairs",
            "thorough": "as quick with date strings of further lengths and 19 century windows (every eighth century, 01, 03, 15, 16, 19, 20, 99); all 100 windows would take about an hour and are not registered",
        },
        "outside": "longer strings; duration numbers beyond 7 digits (panic-freedom of those is C06)",
        "stubs": [MODELS["regexp"], MODELS["fmt"], MODELS["utf8"], MODELS["bytealg"], MODELS["tabulate"]],
        "assumptions": COMMON_ASSUME + ["reference recognisers and denotations are written from Specification.md (time, duration, date sections) in the harness; `<` with `>` rejected, 24:00 folding, 12h conversion"],
    },
    "C06": {
        "jobs": c06_jobs,
        "bounds": {
            "quick": "every byte string of length 0..5 as a whole file; 5 valid prefixes + every 3-byte tail; digit-run templates with 12 symbolic digits (duration, negative duration, should-total, hours+minutes, two entries) and 19 symbolic digits (hours, should-total); arbitrary int64 entry values in evaluation; the commands total, today, report (5 aggregations, --fill), tags, print (--with-totals, --sort), json with their warnings and --now on 1-2 records dated 0000-01-01, 0000-01-02, 9999-12-30, 9999-12-31, 2020-02-29, 2019-12-31 x 9 entry shapes (day-shifted ranges and open ranges, 24:00, 12:00am>) at three wall clocks",
            "thorough": "as quick plus digit runs of 20 symbolic digits (hours, should-total); whole files of 6-7 bytes, 4-5 byte tails and the other 19-digit shapes did not finish within 25-40 minutes and are not registered",
        },
        "outside": "longer arbitrary inputs than the bound (except through the templates); memory exhaustion; very long lines; encoding/json itself (model); decimal rendering of the huge numbers in the digit templates; wall clocks in year 0000 / 9999; --fill across thousands of years (slow, not a hang)",
        "stubs": [MODELS["regexp"], MODELS["fmt"], MODELS["utf8"], MODELS["bytealg"], MODELS["builder"], MODELS["json"], MODELS["sort"]],
        "assumptions": COMMON_ASSUME + ["termination is checked against a step budget of 5e6 SSA instructions per path"],
    },
    "C08": {
        "jobs": c08_jobs,
        "bounds": {"quick": "every byte string of length 0..5", "thorough": "every byte string of length 0..7"},
        "outside": "longer texts; the no-op reconcile composition is covered by the C03 harness family",
        "stubs": [MODELS["utf8"], MODELS["bytealg"]],
        "assumptions": COMMON_ASSUME + ["the line/block layer is generic in the record parser: it is instantiated with a ParseOne that accepts every block"],
    },
    "C15": {
        "jobs": c15_jobs,
        "bounds": {
            "quick": "every date of the decade windows 0000-0009, 0395-0404, 1895-1904, 1996-2005, 9990-9999 (weekday, ISO week/week-year, quarter, +-1 day, week/month/quarter/year periods and predecessors); hash packing for all field values 0..9999/1..12/1..31/1..53; every pattern string of length 0..7 and 9 with the year in 2000-2099",
            "thorough": "as quick plus the decade windows 0095-0104, 1595-1604, 2095-2104, 2395-2404, 4995-5004, 7995-8004 (whole century windows take several minutes each: three of them did not finish within 25 minutes and are not registered)",
        },
        "outside": "the first two weeks of year 0000 and the last week of 9999 for week periods, predecessors of the first month/quarter/year of 0000 (klog panics there: not representable, excluded like in C13's quantifier); pattern strings longer than 9 bytes",
        "stubs": [MODELS["regexp"], MODELS["fmt"], MODELS["tabulate"], "math.Ceil / math.Log2 on concrete floats (int->float of a symbolic month is case-split)"],
        "assumptions": COMMON_ASSUME + ["references: leap rule, month lengths, Sakamoto weekday, ISO-8601 week from ordinal day and weekday with the 53-week rule p(y)=4 or p(y-1)=3, civil day number - all closed forms in the harness",
                                        "month and day are case-split by the engine (path dimension), the year stays symbolic within its century window; wide mul/div nodes over the year are tabulated exactly"],
    },
    "C17": {
        "jobs": c17_jobs,
        "bounds": {
            "quick": "clock at every minute (hour, minute symbolic) of 2021-06-15; roundings {none,5,60}; start x {default,--today,--yesterday,--tomorrow} x {records for yesterday/today/tomorrow, empty file}; stop x 5 layouts (open range today / yesterday only / yesterday with a record today / both / none) with every start time; total --now at every minute for one record and for two records (yesterday's and today's, either order) with an open range each",
            "thorough": "three days (ordinary, year end, leap day) x roundings {none, 5, 12, 20, 60} (all 8 roundings x 5 days take about half an hour and are not registered)",
        },
        "outside": "explicit --time / --date values (covered by C04's command model); clocks outside UTC; switch (= stop + start)",
        "stubs": [MODELS["regexp"], MODELS["fmt"], MODELS["tabulate"], "app.Context: harness implementation (zzContext) holding the file as text and re-parsing it with the real parser, mirroring app.context.ReconcileFile"],
        "assumptions": COMMON_ASSUME,
    },
    "C01": {
        "jobs": c01_jobs,
        "bounds": {
            "quick": "headline: date + every tail of 0..5 bytes; entry line: every indentation style + every tail of 1..6 bytes (n>4: one style per length); range / open-range templates (time shapes x dash spacings x summaries, digits symbolic); line-structure: every kind sequence of 1..4 lines incl. rule-violating continuations (digits and summary bytes symbolic; LF, CRLF, missing final newline; rotating indentation styles); record-summary line and entry-summary continuation line of 1..5 arbitrary bytes (valid UTF-8 asserted two-sided against the blank-character class tab + Unicode Zs); literals: slice of C16",
            "thorough": "as quick plus summary lines of up to 7 arbitrary bytes, structures of up to 3 lines in all 12 line-ending x indentation-rotation combinations and of 4 lines in 4 (5-line structures take 12 minutes per combination; longer single-line tails were not timed and are not registered)",
        },
        "outside": "documents longer than the line bound; arbitrary bytes beyond the tail bounds; non-ASCII bytes in headline tails and value parts (asserted neither way); tab between value and summary, blanks inside the should-total parentheses, trailing blanks (asserted neither way, see DESIGN appendix); invalid UTF-8 in summaries (file encoding MUST be UTF-8)",
        "stubs": [MODELS["regexp"], MODELS["fmt"], MODELS["utf8"], MODELS["bytealg"], MODELS["builder"]],
        "assumptions": COMMON_ASSUME + ["the reference is two-sided with a don't-care band: conforming texts must be accepted with the denoted data, texts breaking a MUST rule listed in the property must be rejected, arguable readings are asserted neither way",
                                        "the line-structure reference is an automaton over line kinds written from Specification.md I/II inside the document generator (zz_verif_gen.go)"],
    },
    "C10": {
        "jobs": c10_jobs,
        "bounds": {
            "quick": "every generated document of 1..4 lines with one injected rule violation (10 fault kinds at every reachable position), parsed serially and with 2-3 workers in every delivery order; terminal rendering compared byte for byte with a rendering built from the reported line / position / length, JSON rendering read back from the emitted text; a malformed entry line followed by 0-4 ARBITRARY bytes through both renderings",
            "thorough": "1-3 line documents in all 12 formatting combinations, 4-line documents in two; 6 arbitrary bytes behind the fault",
        },
        "outside": "longer documents; several independent faults per document (only ordering and per-error validity are asserted for follow-up errors)",
        "stubs": [MODELS["regexp"], MODELS["fmt"], MODELS["utf8"], MODELS["builder"], MODELS["json"]],
        "assumptions": COMMON_ASSUME + ["`first line at which the text stops conforming` is computed by the generator's reference automaton"],
    },
    "C09": {
        "jobs": c09_jobs,
        "bounds": {
            "quick": "every conforming generated document of 1..3 lines (all kind sequences; 2- to 4-space and tab indentation, LF/CRLF, missing final newline, `/` dates, 12-hour and shifted times, dash spacing, `???` placeholders, explicit plus, summaries with trailing blanks and entry-looking text, extra-indented continuation lines); literal round trips for all times, durations -100000..100000, dates of century 20; whole-pipeline value round trip of one record: range (every hour, minutes 00/07/59, day shifts, dash spacing), open range (12/24-hour, 1-3 placeholder characters), signed two-digit duration, record + entry summary of 1-3 ARBITRARY bytes (incl. CR, NUL, invalid UTF-8), date with every year of centuries 00, 09, 20 in both separators with optional signed should-total",
            "thorough": "all 12 formatting combinations for 1-2 lines and 4 for 3 lines; summaries of up to 5 arbitrary bytes; centuries 00, 05, 09, 10, 19, 20, 99 (4-line documents take 10 minutes per combination and are not registered)",
        },
        "outside": "longer documents; longer summaries; finding F8 (a summary line ending in a carriage return) is asserted under its own id and listed in known_findings.json",
        "stubs": [MODELS["regexp"], MODELS["fmt"], MODELS["utf8"], MODELS["builder"]],
        "assumptions": COMMON_ASSUME,
    },
    "C03": {
        "jobs": c03_jobs, "asserts": A_C03,
        "bounds": {"quick": "initial files: every conforming 1-2 line document (3-line documents for stop/switch); commands track (3 entry texts incl. two-line summary), create (3 variants), stop/switch (symbolic time, optional summary), pause (one tick, symbolic minutes); no-op reconcile on 1-3 line documents",
                   "thorough": "as quick plus start on every 2-line file in three formatting combinations, track in two more, pause --extend on 3-line files (tab-separated summaries), create in another combination"},
        "outside": "longer files (the splice arithmetic is exercised on every kind sequence up to the bound, not on all file lengths); parameters other than those listed",
        "stubs": MUT_STUBS, "assumptions": MUT_ASSUME,
    },
    "C04": {
        "jobs": c04_jobs, "asserts": A_C04,
        "bounds": {"quick": "one inductive step of every command from every conforming 2-3 line file (the file is the only state and is re-parsed by every command; start with --summary, --resume and --resume-nth 1 / -2), pause for 1 tick with symbolic minutes and 3 ticks with increments {0,1,59,61}, pause --extend on every 3-line file (pause entry before or after the open range), histories of 2-3 commands (track/start/stop) where each output feeds the next",
                   "thorough": "as quick plus start, track and create in further formatting combinations (longer histories were not timed and are not registered)"},
        "outside": "longer histories (covered by the inductive step only), --resume on switch, switch --summary variants",
        "stubs": MUT_STUBS, "assumptions": MUT_ASSUME + ["the abstract model is the generator's denotation of the file (records as lists of (kind, values, summary)), advanced per command in the harness"],
    },
    "C05": {
        "jobs": c05_jobs, "asserts": A_C05, "extra_stubs": [VFS_STUB],
        "bounds": {"quick": "every generated 1-3 line file with an injected rule violation x {track,start,stop,create,switch}; switch whose second step fails; track with non-entry text; stop/pause without open range or with end before start",
                   "thorough": "more formatting combinations of the 2-3 line invalid files; histories of 3 commands"},
        "outside": "the process exit status itself (main.Run goes through kong / errors.As: reflection, not encodable; Error.Code() of the returned error is checked); file-system FAILURES (permissions, full disk, crash between write calls): the virtual file system never fails",
        "stubs": MUT_STUBS, "assumptions": MUT_ASSUME,
    },
    "C11": {
        "jobs": c11_jobs, "asserts": A_C11,
        "bounds": {"quick": "style election over 2-3 records with every combination of {4 spaces, 2 spaces, tab} x {LF, CRLF} incl. all ties (unanimous style used; otherwise a style some record uses), run twice under every map iteration order; track/create/start on every conforming 2-line file with 3 formatting combinations; notation of generated values (date separator, 12/24-hour clock, dash spacing, placeholder length) for start / start with explicit --time and --date / stop / create / track on files of 0-1 other records plus an optional target record, each record exhibiting every combination of the four notation choices through a duration, range or open-range entry, under no / slash+12h / dash+24h configured preference",
                   "thorough": "all 12 line-ending x indentation-rotation combinations; notation with 2 other records for start (54756 files)"},
        "outside": "notation when the records that exhibit a choice disagree (only determinism is asserted there: the property names no winner); a record whose own entries disagree; times other than 13:05",
        "stubs": MUT_STUBS, "assumptions": MUT_ASSUME,
    },
    "C12": {
        "jobs": c12_jobs,
        "bounds": {"quick": "1-3 records on 8 dates around year / ISO-week-year / leap-day / month boundaries (every choice with repetition, any order; the second record in either date notation), totals symbolic in [-100000,100000], all 5 aggregations, --fill over the spanned range, klog today split; print --with-totals on every conforming generated document of 1-2 lines (prefix column removed = plain print, record line carries the record total, one value per entry, entry values add up); bucket hashes for all field values; week buckets on 1996-2005",
                   "thorough": "week buckets on four decade windows; print --with-totals on 3-line documents"},
        "outside": "the rendered table text (alignment is C18); --decimal / --diff cell formatting; other dates than the boundary set for the composition (the bucket rule itself is proven for all dates in C15)",
        "stubs": [MODELS["sort"], MODELS["tabulate"], MODELS["fmt"]],
        "assumptions": COMMON_ASSUME + ["reference periods of the 8 boundary dates (ISO week-year and week) are written down in the harness from the calendar"],
    },
    "C13": {
        "jobs": c13_jobs,
        "bounds": {"quick": "shortcut filters this/last week, month, quarter, year, --today/--yesterday/--tomorrow and --after/--before for every reference date 2019-2022 against records on the first/last day of the reference period and their neighbours; sort of 1-3 records with symbolic dates (2019-2021, any month, day 1-28) written with either date separator (mixed notations), asc and desc; date clauses (--date, --since, --since+--until) on 1-2 records with symbolic dates; tag clauses (#x, #y, #x=v at record and entry level) x 5 entry types x all entry kinds on 1 record x 2 entries and 2 records x 1 entry",
                   "thorough": "shortcuts also for the reference years 0001-0004 and 9995-9998 (a wall clock in year 0000 or 9999, where the previous / next period is not representable, is not an input of the property); all clause kinds combined on one record x one entry (larger tag / type products, sorting 4 records with mixed notations and date clauses on 3 records exceed the time budget and are not registered)"},
        "outside": "--period with a literal pattern through ApplyFilter (pattern -> period is C15; period -> since/until is the date-clause path covered here); sort of more than 12 records (pdqsort leaves its insertion-sort regime)",
        "stubs": [MODELS["sort"], MODELS["regexp"]],
        "assumptions": COMMON_ASSUME + ["dates are raw field triples (Filter and Sort only compare year/month/day)"],
    },
    "C14": {
        "jobs": c14_jobs,
        "bounds": {"quick": "every ASCII one-line summary of 0..6 bytes, and every 4-5 byte summary split into two lines at every position, against a reference tag scanner written from the specification; tag totals for record/entry tag combinations of {#x, #y, #x=v} on 1x2 and 2x1 records x entries with symbolic durations",
                   "thorough": "two-line split of 6-byte summaries; 2x2 and 1x3 shapes (7-byte summaries: 1.7 million paths, 17 minutes, ran clean once but are not registered)"},
        "outside": "non-ASCII letters in tag names (the Unicode letter class is only reached with concrete runes); summaries longer than the bound; summaries of more than two lines",
        "stubs": [MODELS["regexp"], MODELS["sort"]],
        "assumptions": COMMON_ASSUME,
    },
    "C20": {
        "jobs": c20_jobs,
        "bounds": {"quick": "the emitted JSON TEXT (engine model of encoding/json driven by klog's struct declarations and tags, see stubs) of every generated document of 1-2 lines (valid and with injected rule violations; digits and summary bytes symbolic), compact and --pretty: parsed by a reference JSON reader written from RFC 8259 - well-formed, exactly one of records/errors non-null, every object has exactly the documented keys in order with the documented value kinds, per record date/summary/tags/should-total/entries in order with type, summary, tags, start/end notation and minute values, total = sum of entries, diff = total - should, range total = end - start; error objects equal to the terminal report (line, column, length, title, details); one record with a range (symbolic start hour x 4 ends x shifts), open range and signed duration with all digits symbolic; multi-line record and entry summaries (starting on the entry line or below it) with symbolic bytes and tags",
                   "thorough": "1-2 line documents in all 12 line-ending x indentation combinations; ranges with every hour 00-24 x minutes 00/01/59 on both ends x day shifts (3-line documents take > 45 min with the text model and are not registered)"},
        "outside": "bytes the generator does not put into summaries (its alphabet is ASCII; the string-escaping part of the model covers arbitrary bytes but is exercised with that alphabet only); filters and --sort in klog json (C13); documents longer than the bound",
        "stubs": [MODELS["json"], MODELS["regexp"], MODELS["fmt"], MODELS["sort"]],
        "assumptions": COMMON_ASSUME + ["the engine's model of encoding/json (struct tags incl. omitempty and `-`, embedded-struct field dominance, nil slices/pointers as null, string escaping with SetEscapeHTML, SetIndent layout, integers) is trusted; it is validated on every run by replaying all witnesses natively, where the real encoding/json produces the text that the same reference reader and assertions then examine"],
    },
    "C19": {
        "jobs": c19_jobs,
        "bounds": {"quick": "one inductive step (set / unset / clear, then read back, exact listed names, list order, @name resolution of a used or fresh name) from a stored database of 0-1 bookmarks; names = optional @ / @@ prefix + symbolic printable ASCII bytes incl. `@`, quote and backslash (stored name: 0-1 bytes, operation name: 0-2 bytes), normalised independently of klog; three concrete target paths (incl. a space and a sub-directory); the REAL app.Context (ManipulateBookmarks, ReadBookmarks, RetrieveTargetFile, FileRetriever, WriteToFile/ReadFile) on the virtual file system; bookmarks.json is written and read back as JSON TEXT through the engine's encoding/json model",
                   "thorough": "stored names of 0-2 bytes; a stored database of 2 bookmarks (prefix-only names)"},
        "outside": "non-ASCII names; --create; file-system failures; hand-edited bookmarks.json; histories longer than one step are covered inductively only (every command re-reads the file)",
        "stubs": [MODELS["json"], VFS_STUB, MODELS["sort"], MODELS["fmt"]],
        "assumptions": COMMON_ASSUME + ["pre-states are produced by the real `bookmarks set` command, so they satisfy the representation invariant by construction",
                                        "the encoding/json model is validated by the natively replayed witnesses (real encoding/json)"],
    },
    "C18": {
        "jobs": c18_jobs,
        "bounds": {"quick": "commands print, print --with-totals, total --diff, report --diff --fill (5 aggregations), tags --values --count, today --diff on a two-record file whose record summary has 2 symbolic bytes (full byte range incl. ESC), a symbolic digit and a tag value that is ASCII, `b\u00fc` or two CJK characters, under themes dark, light, basic vs no_colour",
                   "thorough": "same"},
        "outside": "other files; user text that itself contains SGR sequences is compared after stripping on both sides; NO_COLOR / --no-style plumbing (kong)",
        "stubs": [MODELS["regexp"], MODELS["fmt"], MODELS["builder"], MODELS["sort"]],
        "assumptions": COMMON_ASSUME,
    },
    "C07": {
        "jobs": c07_jobs,
        "bounds": {
            "quick": "every byte string of length 0..4 x worker counts 1..min(n+2,4) x every order in which the workers can deliver their results (all w! orders); texts of 5-6 lines, each line one of {empty, `a`, `aaa` | `!aa`} x {LF, CRLF}, optionally an unterminated last line, with 2-3 workers (every chunk boundary position relative to blank lines and CR LF pairs in texts up to 31 bytes)",
            "thorough": "as quick plus further line-built texts: 6 lines incl. error lines and an unterminated last line with 2 workers, 5 lines with error lines with 3 workers, 4 lines with 4 workers (5-byte arbitrary strings and 7-line texts did not finish within 25 minutes and are not registered)",
        },
        "outside": "longer texts and other line contents than those listed (finding F9 needed 13 bytes and was outside the arbitrary-bytes bound until the line-built texts were added); interleavings finer than result delivery (workers share only immutable strings and the result channel: assumed, not shown); the real record parser as ParseOne (the engine is generic: a deterministic stub ParseOne that echoes the block and flags lines starting with `!` is used; composition with the real parse is covered by C01/C10 serial-vs-parallel jobs)",
        "stubs": [MODELS["utf8"], MODELS["bytealg"], "goroutines as coroutines under the engine scheduler; channel receive chooses nondeterministically among pending senders (all orders explored); sync.WaitGroup modelled; math.Ceil on concrete floats"],
        "assumptions": COMMON_ASSUME + ["ParseOne is a pure function of its block", "native replay forces the explored delivery order through the build-tag `verif` schedule point in processAsync"],
    },
    "C02": {
        "jobs": c02_jobs,
        "bounds": {
            "quick": "record/entry shapes (records x entries per record) {1x1,1x2,2x1}, every entry kind per slot, should-total present or not; all durations in [-1e9,1e9], all valid (hour,minute,shift) time pairs; --now at every minute of 2020-03-01 against records dated -2..+1 days",
            "thorough": "as quick plus the generated documents in a second formatting combination (2x2 and three-fold shapes did not finish within 25 minutes and are not registered)",
        },
        "outside": "more records/entries per evaluation than the bound (the sum is a fold: each step is covered); |minutes| > 1e9 (overflow is C06)",
        "stubs": [MODELS["tabulate"]],
        "assumptions": COMMON_ASSUME,
    },
}
