"""Per-property harness sets, bounds and trusted base (read by bin/check)."""

K = "github.com/jotaen/klog/klog"

COMMON_ASSUME = [
    "64-bit int; single process; UTC",
    "strings have a concrete length per job; every byte is an unconstrained symbolic 8-bit value unless the harness states otherwise",
    "package-level variables of klog are immutable after initialisation (initialisers are run once, concretely)",
    "SMT verdicts are z3 4.8.12's; any (error line or unknown makes the obligation undecided (never counted as success)",
]

MODELS = {
    "regexp": "regexp.* : pattern compiled by Go's regexp/syntax to the real syntax.Prog, executed by the engine's leftmost-first backtracking matcher over symbolic runes",
    "fmt": "fmt.Sprintf/Sprint for %d %v %s %c with flags 0,- and width (digits of symbolic integers by div/mod, forking on digit count)",
    "bytealg": "internal/bytealg Index*/Count*/Equal/Compare (assembly) as direct definitions over byte vectors",
    "builder": "strings.Builder (unsafe) as a byte vector; strings.Repeat/ToLower/ToUpper (ASCII exact)",
    "utf8": "range-over-string / []rune / utf8.Decode* : engine decoder forking on the UTF-8 encoding class",
    "itoa": "strconv.Itoa via the same digit generator as %d",
    "sort": "sort.Slice: real pdqsort_func SSA with an engine swapper",
}


def job(h, pkg=K, **params):
    return {"harness": pkg + "." + h, "params": params}


def c16_jobs(tier):
    js = []
    maxn = 9 if tier == "quick" else 10
    for n in range(0, maxn + 1):
        js.append(job("ZZ_C16_TimeAccept", n=n))
    for h in ["ZZ_C16_TimeRoundtrip", "ZZ_C16_TimePlus", "ZZ_C16_Range", "ZZ_C16_DurationRoundtrip"]:
        js.append(job(h))
    for n in range(0, (6 if tier == "quick" else 8) + 1):
        js.append(job("ZZ_C16_DurationAccept", n=n))
    return js


CHECKS = {
    "C16": {
        "jobs": c16_jobs,
        "bounds": {"quick": "time literals: all byte strings of length 0..9", "thorough": "all byte strings of length 0..10"},
        "outside": "strings longer than the bound",
        "stubs": [MODELS["regexp"], MODELS["fmt"], MODELS["utf8"]],
        "assumptions": COMMON_ASSUME,
    },
}
