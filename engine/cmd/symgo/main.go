// Command symgo runs harness functions symbolically over the SSA form of the
// repository's current working tree.
package main

import (
	"encoding/json"
	"flag"
	"fmt"
	"os"
	"path/filepath"
	"runtime"
	"runtime/pprof"
	"strings"
	"time"

	"golang.org/x/tools/go/packages"
	"golang.org/x/tools/go/ssa"
	"golang.org/x/tools/go/ssa/ssautil"

	"symgo/symgo"
)

type output struct {
	Repo         string             `json:"repo"`
	LoadSeconds  float64            `json:"load_s"`
	TotalSeconds float64            `json:"total_s"`
	Functions    int                `json:"ssa_functions"`
	InitWarnings []string           `json:"init_warnings"`
	Results      []*symgo.JobResult `json:"results"`
}

func main() {
	repo := flag.String("repo", "/repo", "repository root")
	harnessDir := flag.String("harness", "/verif/harness", "directory mirrored over the repository as a build overlay")
	jobsFile := flag.String("jobs", "", "JSON file with the list of jobs")
	out := flag.String("out", "", "output JSON file (default stdout)")
	workers := flag.Int("workers", runtime.NumCPU(), "parallel workers")
	solver := flag.String("solver", "z3", "SMT solver binary")
	timeout := flag.Int("timeout-ms", 1500, "per-query timeout (incremental)")
	hard := flag.Int("hard-timeout-ms", 60000, "one-shot retry timeout for assertion queries")
	maxSteps := flag.Int("max-steps", 5000000, "instruction budget per path")
	seed := flag.Int64("seed", 0, "seed")
	trace := flag.Bool("trace", false, "trace calls")
	noprop := flag.Bool("no-propagator", false, "disable the byte-domain propagator (every branch goes to the solver)")
	smtTrace := flag.String("smt-trace", "", "write solver dialogue to <prefix>.<worker>.smt2")
	progress := flag.Int("progress", 0, "print progress to stderr every N seconds")
	notab := flag.Bool("no-tabulate", false, "do not tabulate wide mul/div nodes over small-domain variables")
	cpuprofile := flag.String("cpuprofile", "", "write a CPU profile of the exploration")
	pattern := flag.String("pattern", "./klog/...", "package pattern to load")
	selftest := flag.Int("selftest-simp", 0, "run N rounds of the simplifier self-test and exit")
	flag.Parse()
	if *selftest > 0 {
		n, err := symgo.SimplifierSelfTest(*solver, *selftest, *seed)
		if err != nil {
			fmt.Fprintln(os.Stderr, err)
			os.Exit(1)
		}
		fmt.Printf("simplifier self-test: %d equivalence lemmas proven by %s over %d rounds\n", n, *solver, *selftest)
		return
	}

	var jobs []symgo.Job
	if *jobsFile != "" {
		b, err := os.ReadFile(*jobsFile)
		if err != nil {
			fatal(err)
		}
		if err := json.Unmarshal(b, &jobs); err != nil {
			fatal(err)
		}
	}
	for _, a := range flag.Args() {
		// harness[:k=v,k=v]
		j := symgo.Job{Params: map[string]int64{}, Witness: 3}
		name, ps, _ := strings.Cut(a, ":")
		j.Harness, j.ID = name, a
		for _, kv := range strings.Split(ps, ",") {
			if kv == "" {
				continue
			}
			k, v, _ := strings.Cut(kv, "=")
			var x int64
			fmt.Sscan(v, &x)
			if k == "_split" {
				j.MaxSplit = int(x)
				continue
			}
			if k == "_paths" {
				j.MaxPaths = int(x)
				continue
			}
			j.Params[k] = x
		}
		jobs = append(jobs, j)
	}
	if len(jobs) == 0 {
		fatal(fmt.Errorf("no jobs"))
	}

	t0 := time.Now()
	overlay := map[string][]byte{}
	filepath.Walk(*harnessDir, func(p string, info os.FileInfo, err error) error {
		if err != nil || info.IsDir() || !strings.HasSuffix(p, ".go") {
			return nil
		}
		rel, _ := filepath.Rel(*harnessDir, p)
		if strings.Contains(rel, "zzverif/replay") {
			return nil
		}
		b, err := os.ReadFile(p)
		if err != nil {
			return nil
		}
		overlay[filepath.Join(*repo, rel)] = b
		return nil
	})
	cfg := &packages.Config{
		Mode:    packages.LoadAllSyntax,
		Dir:     *repo,
		Overlay: overlay,
		Env:     append(os.Environ(), "GOFLAGS=-mod=mod", "GOPROXY=off"),
	}
	pats := []string{*pattern}
	pkgs, err := packages.Load(cfg, pats...)
	if err != nil {
		fatal(err)
	}
	nerr := 0
	packages.Visit(pkgs, nil, func(p *packages.Package) {
		for _, e := range p.Errors {
			fmt.Fprintf(os.Stderr, "load error: %s: %v\n", p.PkgPath, e)
			nerr++
		}
	})
	if nerr > 0 {
		fatal(fmt.Errorf("%d package load errors (the working tree does not build with the harness overlay)", nerr))
	}
	prog, _ := ssautil.AllPackages(pkgs, ssa.InstantiateGenerics)
	prog.Build()
	loadS := time.Since(t0).Seconds()

	eng := symgo.NewEngine(prog)
	eng.Workers = *workers
	eng.SolverBin = *solver
	eng.TimeoutMs = *timeout
	eng.HardTimeoutMs = *hard
	eng.MaxSteps = *maxSteps
	eng.Seed = *seed
	eng.Trace = *trace
	eng.NoPropagator = *noprop
	eng.NoTabulate = *notab
	eng.Progress = *progress
	eng.SMTTrace = *smtTrace
	if *cpuprofile != "" {
		f, _ := os.Create(*cpuprofile)
		pprof.StartCPUProfile(f)
		defer pprof.StopCPUProfile()
	}
	res, err := eng.Run(jobs)
	if err != nil {
		fatal(err)
	}
	o := output{Repo: *repo, LoadSeconds: loadS, TotalSeconds: time.Since(t0).Seconds(),
		Functions: len(ssautil.AllFunctions(prog)), InitWarnings: eng.InitWarnings, Results: res}
	enc, _ := json.MarshalIndent(o, "", " ")
	if *out == "" {
		os.Stdout.Write(enc)
		fmt.Println()
	} else if err := os.WriteFile(*out, enc, 0o644); err != nil {
		fatal(err)
	}
}

func fatal(err error) {
	fmt.Fprintln(os.Stderr, "symgo:", err)
	os.Exit(2)
}
