package symgo

import (
	"fmt"
	"go/token"
	"go/types"
	"io"
	"os"
	"runtime/debug"
	"sort"
	"strings"
	"sync"
	"time"

	"golang.org/x/tools/go/ssa"
)

type intrinsicFn func(fr *frame, args []value) value

// Engine holds the program and everything shared between workers.
type Engine struct {
	Prog               *ssa.Program
	MaxSteps           int
	SolverBin          string
	TimeoutMs          int // per incremental query
	HardTimeoutMs      int // one-shot retry for assertion queries
	Workers            int
	Seed               int64
	Trace              bool
	TraceOut           io.Writer
	NoPropagator       bool
	NoTabulate         bool
	MaxSplit           int
	Progress           int
	SMTTrace           string
	runtimeErrorString types.Type

	intrinsics  map[string]intrinsicFn
	methodCache sync.Map
	globalsMu   sync.Mutex
	globals     map[*ssa.Global]*value
	pkgInit     map[*ssa.Package]bool
	initAllowed func(path string) bool
	InitWarnings []string
	intrCache   sync.Map // *ssa.Function -> intrinsicFn or nil marker

	// work queue
	mu      sync.Mutex
	cond    *sync.Cond
	stack   []workItem
	busy    int
	stopped bool
}

type workItem struct {
	js      *JobState
	prefix  []int64
	retries int
}

// Job is one harness instance.
type Job struct {
	ID       string           `json:"id"`
	Harness  string           `json:"harness"` // "<pkgpath>.<Func>"
	Params   map[string]int64 `json:"params"`
	MaxPaths int              `json:"max_paths"`
	Witness  int              `json:"witnesses"` // how many path witnesses to keep
	MaxSplit int              `json:"max_split"` // case-split budget of the tabulation hook (0 = tabulate single-variable nodes only)
}

// NondetRec is one value obtained from a nondet call, in call order.
type NondetRec struct {
	Name string `json:"name"`
	Kind string `json:"kind"` // byte,int,bool,string,choice
	Len  int    `json:"len,omitempty"`
	Val  any    `json:"val"`
	terms []*Term
}

type ObserveRec struct {
	Name string `json:"name"`
	Val  string `json:"val"`
}

// Witness is a solver model of one complete path.
type Witness struct {
	Decisions int          `json:"decisions"`
	Values    []NondetRec  `json:"values"`
	Observes  []ObserveRec `json:"observes"`
	Outcome   string       `json:"outcome"`
}

// Violation is a satisfiable negated assertion (or an uncaught panic) with its model.
type Violation struct {
	AssertID string       `json:"assert_id"`
	Kind     string       `json:"kind"` // "assert" or "panic"
	Site     string       `json:"site"`
	Stack    []string     `json:"stack,omitempty"`
	Message  string       `json:"message,omitempty"`
	Values   []NondetRec  `json:"values"`
	Observes []ObserveRec `json:"observes,omitempty"`
	Count    int          `json:"count"` // how many paths hit the same signature
}

type Undecided struct {
	AssertID string `json:"assert_id"`
	Site     string `json:"site"`
	Reason   string `json:"reason"`
}

// JobResult is the outcome of a job.
type JobResult struct {
	Job            Job            `json:"job"`
	Paths          int            `json:"paths"`
	Outcomes       map[string]int `json:"outcomes"`
	AssertChecks   int            `json:"assert_checks"`
	AssertTrivial  int            `json:"assert_trivial"`
	AssertUnsat    int            `json:"assert_unsat"`
	AssertSat      int            `json:"assert_sat"`
	AssertUnknown  int            `json:"assert_unknown"`
	Queries        int            `json:"queries"`
	QSat           int            `json:"q_sat"`
	QUnsat         int            `json:"q_unsat"`
	QUnknown       int            `json:"q_unknown"`
	QErrors        int            `json:"q_errors"`
	PropDecided    int            `json:"propagator_decided"`
	SolverSeconds  float64        `json:"solver_s"`
	WallSeconds    float64        `json:"wall_s"`
	BoundExceeded  int            `json:"bound_exceeded"`
	EngineErrors   map[string]int `json:"engine_errors"`
	Violations     []*Violation   `json:"violations"`
	Undecided      []Undecided    `json:"undecided"`
	Witnesses      []Witness      `json:"witnesses"`
	Funcs          []string       `json:"functions_encoded"`
	MaxDecisions   int            `json:"max_decisions"`
	Steps          int64          `json:"steps"`
	PathsNeedingSolver int        `json:"paths_solver"`
	Complete       bool           `json:"complete"`
	SolverRestarts int            `json:"solver_restarts"`
}

type JobState struct {
	job     Job
	fn      *ssa.Function
	mu      sync.Mutex
	res     JobResult
	vioIdx  map[string]*Violation
	funcs   map[*ssa.Function]bool
	pending int
	start   time.Time
}

// domain is the exact set of values still allowed for a small-range variable
// by the single-variable constraints of the path.
type domain struct {
	lo    int64
	n     int
	bits  []uint64
	count int
}

func newDomain(lo int64, n int) *domain {
	d := &domain{lo: lo, n: n, bits: make([]uint64, (n+63)/64), count: n}
	for i := 0; i < n; i++ {
		d.bits[i/64] |= 1 << (i % 64)
	}
	return d
}

func (d *domain) minmax() (int64, int64, bool) {
	lo, hi := -1, -1
	for i := 0; i < d.n; i++ {
		if d.has(i) {
			if lo < 0 {
				lo = i
			}
			hi = i
		}
	}
	if lo < 0 {
		return 0, 0, false
	}
	return d.lo + int64(lo), d.lo + int64(hi), true
}

func (d *domain) has(i int) bool { return d.bits[i/64]&(1<<(i%64)) != 0 }

// Worker executes paths.
type Worker struct {
	eng *Engine
	id  int
	tb  *TB
	sol *Solver

	js        *JobState
	prefix    []int64
	pos       int
	decisions []int64
	pc        []*Term
	dom       map[*Term]*domain
	multi     map[*Term]bool
	pcUncertain bool
	steps     int
	depth     int
	nondets   []NondetRec
	observes  []obsRec
	usedSolver bool
	mapOrderNondet bool
	lastRecovered *targetPanic
	tables    map[*value]*Table
	nextTable int
	nvar      int
	inHeavy   bool
	vfs       *vfs
	noSummaries bool
	encoded   []value
	jsonStore []value
	heavyCache map[tkey]*Term
	tableBySig map[string]*Table
	tabulated int

	// scheduler state (sched.go)
	sched *scheduler

	// per-path counters flushed into the job
	aChecks, aTriv, aUnsat, aSat, aUnk, propDecided int
	violations []*Violation
	undecided  []Undecided
	funcsSeen  map[*ssa.Function]bool
}

type obsRec struct {
	name string
	v    value
}

func NewEngine(prog *ssa.Program) *Engine {
	e := &Engine{
		Prog:          prog,
		MaxSteps:      5_000_000,
		MaxSplit:      1 << 16,
		SolverBin:     "z3",
		TimeoutMs:     1_500,
		HardTimeoutMs: 60_000,
		Workers:       1,
		globals:       map[*ssa.Global]*value{},
		pkgInit:       map[*ssa.Package]bool{},
		intrinsics:    map[string]intrinsicFn{},
		TraceOut:      os.Stderr,
	}
	e.cond = sync.NewCond(&e.mu)
	if rt := prog.ImportedPackage("runtime"); rt != nil {
		e.runtimeErrorString = rt.Type("errorString").Object().Type()
	}
	e.initAllowed = defaultInitAllowed
	registerIntrinsics(e)
	return e
}

func defaultInitAllowed(path string) bool {
	switch path {
	case "time", "unicode", "unicode/utf8", "strconv", "strings", "errors", "math", "math/bits",
		"sort", "slices", "cloud.google.com/go/civil", "path/filepath", "bytes", "io", "maps", "cmp",
		"internal/filepathlite", "internal/stringslite", "internal/bytealg", "internal/itoa", "io/fs", "path":
		return true
	}
	return strings.HasPrefix(path, "github.com/jotaen/")
}

func (e *Engine) lookupMethod(typ types.Type, meth *types.Func) *ssa.Function {
	type key struct {
		t types.Type
		m *types.Func
	}
	k := key{typ, meth}
	if f, ok := e.methodCache.Load(k); ok {
		return f.(*ssa.Function)
	}
	f := e.Prog.LookupMethod(typ, meth.Pkg(), meth.Name())
	e.methodCache.Store(k, f)
	return f
}

func (e *Engine) intrinsic(fn *ssa.Function) intrinsicFn {
	if v, ok := e.intrCache.Load(fn); ok {
		if v == nil {
			return nil
		}
		f, _ := v.(intrinsicFn)
		return f
	}
	name := fn.String()
	if o := fn.Origin(); o != nil {
		name = o.String()
	}
	in, ok := e.intrinsics[name]
	if !ok {
		// package initialisers are routed through initPkg
		if fn.Name() == "init" && fn.Synthetic != "" && fn.Pkg != nil && fn.Signature.Recv() == nil && fn.Parent() == nil && fn.Pkg.Func("init") == fn {
			pkg := fn.Pkg
			in = func(fr *frame, args []value) value {
				e.initPkg(fr.w, pkg)
				return nil
			}
			ok = true
		}
	}
	if ok {
		e.intrCache.Store(fn, in)
		return in
	}
	e.intrCache.Store(fn, (intrinsicFn)(nil))
	return nil
}

func (e *Engine) noteFunc(w *Worker, fn *ssa.Function) {
	if w.funcsSeen != nil && !w.funcsSeen[fn] {
		w.funcsSeen[fn] = true
	}
}

// global returns the cell of g, initialising its package on first touch.
func (e *Engine) global(w *Worker, g *ssa.Global) *value {
	e.globalsMu.Lock()
	if c, ok := e.globals[g]; ok {
		e.globalsMu.Unlock()
		return c
	}
	e.globalsMu.Unlock()
	e.initPkg(w, g.Pkg)
	e.globalsMu.Lock()
	defer e.globalsMu.Unlock()
	c, ok := e.globals[g]
	if !ok {
		panic(engineError{"global without storage: " + g.String()})
	}
	return c
}

// initPkg allocates the globals of pkg and (for allowed packages) runs its
// initialiser concretely.  Must be called before workers start (InitFor) or
// it serialises on initMu.
var initMu sync.Mutex

func (e *Engine) initPkg(w *Worker, pkg *ssa.Package) {
	e.globalsMu.Lock()
	if e.pkgInit[pkg] {
		e.globalsMu.Unlock()
		return
	}
	e.pkgInit[pkg] = true
	for _, m := range pkg.Members {
		if g, ok := m.(*ssa.Global); ok {
			cell := zero(deref(g.Type()))
			e.globals[g] = &cell
		}
	}
	e.globalsMu.Unlock()
	if !e.initAllowed(pkg.Pkg.Path()) {
		return
	}
	initFn := pkg.Func("init")
	if initFn == nil || initFn.Blocks == nil {
		return
	}
	func() {
		defer func() {
			if r := recover(); r != nil {
				msg := fmt.Sprintf("init of %s aborted: %v", pkg.Pkg.Path(), describePanic(r))
				e.InitWarnings = append(e.InitWarnings, msg)
			}
		}()
		// run the body directly (bypassing the intrinsic that routes here)
		saveSteps := w.steps
		w.steps = -1 << 40
		w.runSSABody(nil, initFn)
		w.steps = saveSteps
	}()
}

func describePanic(r interface{}) string {
	switch r := r.(type) {
	case engineError:
		return "engine: " + r.msg
	case targetPanic:
		return "target panic: " + describe(r.v) + " at " + r.site
	case pathEnd:
		return "path end: " + r.reason
	}
	return fmt.Sprintf("%v\n%s", r, debug.Stack())
}

// runSSABody runs fn's body without consulting intrinsics.
func (w *Worker) runSSABody(caller *frame, fn *ssa.Function) value {
	return w.exec(&frame{w: w, caller: caller, fn: fn}, nil, nil)
}

func (e *Engine) newWorker(id int) (*Worker, error) {
	sol, err := NewSolver(e.SolverBin, e.TimeoutMs)
	if err != nil {
		return nil, err
	}
	sol.HardMs = e.HardTimeoutMs
	if e.SMTTrace != "" {
		f, err := os.Create(fmt.Sprintf("%s.%d.smt2", e.SMTTrace, id))
		if err == nil {
			sol.Trace = f
		}
	}
	w := &Worker{eng: e, id: id, tb: NewTB(), sol: sol}
	if !e.NoTabulate {
		w.tb.Heavy = w.heavy
	}
	return w, nil
}

// heavy is the term builder's hook for wide mul/div/rem nodes.  When the node
// depends only on variables with small tracked domains it is replaced by an
// exact lookup table over one variable: the other variables are case-split
// (forking the path), the node is evaluated with the engine's exact evaluator
// for every value of the remaining variable, and the solver sees a table
// instead of a 64-bit multiplier/divider.
func (w *Worker) heavy(op Op, a, b *Term) *Term {
	if w.inHeavy || w.js == nil {
		return nil
	}
	hk := tkey{op: op, a: a, b: b}
	if r, ok := w.heavyCache[hk]; ok {
		return r
	}
	tb := w.tb
	// narrow products are cheap for the solver
	ia, ib := tb.IV(a), tb.IV(b)
	if op == OpMul && ia.uhi <= 0xffff && ib.uhi <= 0xffff && ia.uhi*ib.uhi <= 0xffff {
		return nil
	}
	support := func() []*Term {
		vars := w.varsOf(a)
		for _, v := range w.varsOf(b) {
			dup := false
			for _, x := range vars {
				if x == v {
					dup = true
				}
			}
			if !dup {
				vars = append(vars, v)
			}
		}
		return vars
	}
	w.inHeavy = true
	defer func() { w.inHeavy = false }()
	var keep *Term
	splitAny := false
	for {
		vars := support()
		if len(vars) == 0 {
			if !splitAny {
				return nil
			}
			w.inHeavy = false
			return tb.Bin(op, a, b)
		}
		prod := 1
		keep = nil
		var smallest *Term
		for _, v := range vars {
			d := w.dom[v]
			if d == nil || d.n > 300 {
				if splitAny {
					w.inHeavy = false
					return tb.mk(op, a.w, 0, tb.ck(a), tb.ck(b), nil, nil)
				}
				return nil
			}
			c := d.count
			if c < 1 {
				c = 1
			}
			prod *= c
			if prod > 1<<22 {
				prod = 1 << 22
			}
			if keep == nil || d.count > w.dom[keep].count {
				keep = v
			}
		}
		for _, v := range vars {
			if v != keep && (smallest == nil || w.dom[v].count < w.dom[smallest].count) {
				smallest = v
			}
		}
		if smallest == nil {
			break // exactly one variable left
		}
		if a.w < 32 {
			return nil // narrow nodes are only tabulated, never case-split
		}
		if op == OpMul || prod/maxInt(1, w.dom[keep].count) > w.js.job.MaxSplit {
			if splitAny {
				w.inHeavy = false
				return tb.mk(op, a.w, 0, tb.ck(a), tb.ck(b), nil, nil)
			}
			return nil
		}
		// case split over the values still allowed for the smallest variable
		v := smallest
		d := w.dom[v]
		done := false
		for i := 0; i < d.n && !done; i++ {
			if !d.has(i) {
				continue
			}
			val := uint64(d.lo+int64(i)) & mask(v.w)
			if w.branch(tb.Cmp(OpEq, v, K(v.w, val))) {
				done = true
			}
		}
		if !done {
			panic(pathEnd{"infeasible"})
		}
		splitAny = true
		w.afterConcretize(v)
		memo := map[*Term]*Term{}
		a, b = tb.Rebuild(a, memo), tb.Rebuild(b, memo)
		if a.op == OpConst && b.op == OpConst {
			w.inHeavy = false
			return tb.Bin(op, a, b)
		}
	}
	if splitAny {
		// retry the ordinary rules on the rebuilt operands first
		w.inHeavy = false
		r := tb.Bin(op, a, b)
		return r
	}
	// single variable: tabulate over its whole declared range
	d := w.dom[keep]
	if d.count <= 1 {
		return nil
	}
	vals := make([]uint64, d.n)
	env := &evalEnv{vals: map[*Term]uint64{}, memo: map[*Term]uint64{}}
	for i := 0; i < d.n; i++ {
		env.vals[keep] = uint64(d.lo+int64(i)) & mask(keep.w)
		for k := range env.memo {
			delete(env.memo, k)
		}
		x, y := env.eval(a), env.eval(b)
		if (op == OpUDiv || op == OpURem || op == OpSDiv || op == OpSRem) && y == 0 {
			return nil
		}
		vals[i], _ = evalBin(op, a.w, x, y)
	}
	// entries outside the current domain are infeasible on this path (the domain
	// only shrinks): make them repeat a neighbour so that the table compresses
	first := -1
	for i := 0; i < d.n; i++ {
		if d.has(i) {
			first = i
			break
		}
	}
	last := vals[first]
	for i := 0; i < d.n; i++ {
		if d.has(i) {
			last = vals[i]
		} else {
			vals[i] = last
		}
	}
	var sig strings.Builder
	fmt.Fprintf(&sig, "%d:", a.w)
	for _, v := range vals {
		fmt.Fprintf(&sig, "%x,", v)
	}
	tbl, ok := w.tableBySig[sig.String()]
	if !ok {
		w.nextTable++
		tbl = &Table{id: w.nextTable, w: a.w, vals: vals}
		w.tableBySig[sig.String()] = tbl
	}
	var idx *Term
	if keep.w == 8 && d.lo == 0 {
		idx = tb.Zext(keep, 16)
	} else {
		idx = tb.Extract(tb.Bin(OpSub, keep, K(keep.w, uint64(d.lo))), 0, 16)
	}
	tb.fire("tabulate")
	w.tabulated++
	r := tb.TableLookup(tbl, idx)
	w.heavyCache[hk] = r
	return r
}

// InitFor initialises the packages needed by fn (single-threaded, before exploration).
func (e *Engine) InitFor(fn *ssa.Function) {
	w := &Worker{eng: e, tb: NewTB()}
	e.initPkg(w, fn.Pkg)
	for _, p := range e.Prog.AllPackages() {
		if e.initAllowed(p.Pkg.Path()) {
			e.initPkg(w, p)
		}
	}
}

// FindFunc resolves "<pkgpath>.<Func>".
func (e *Engine) FindFunc(name string) (*ssa.Function, error) {
	i := strings.LastIndex(name, ".")
	if i < 0 {
		return nil, fmt.Errorf("bad harness name %q", name)
	}
	pkg := e.Prog.ImportedPackage(name[:i])
	if pkg == nil {
		return nil, fmt.Errorf("package %q not loaded", name[:i])
	}
	fn := pkg.Func(name[i+1:])
	if fn == nil {
		return nil, fmt.Errorf("function %q not found", name)
	}
	return fn, nil
}

// Run explores all jobs and returns their results.
func (e *Engine) Run(jobs []Job) ([]*JobResult, error) {
	var states []*JobState
	for _, j := range jobs {
		fn, err := e.FindFunc(j.Harness)
		if err != nil {
			return nil, err
		}
		e.InitFor(fn)
		js := &JobState{job: j, fn: fn, vioIdx: map[string]*Violation{}, funcs: map[*ssa.Function]bool{}, start: time.Now()}
		js.res.Job = j
		js.res.Outcomes = map[string]int{}
		js.res.EngineErrors = map[string]int{}
		js.pending = 1
		states = append(states, js)
	}
	// push in reverse so that the first job is explored first
	for i := len(states) - 1; i >= 0; i-- {
		e.stack = append(e.stack, workItem{js: states[i]})
	}
	var wg sync.WaitGroup
	errs := make(chan error, e.Workers)
	stopProgress := make(chan struct{})
	if e.Progress > 0 {
		go func() {
			tk := time.NewTicker(time.Duration(e.Progress) * time.Second)
			defer tk.Stop()
			for {
				select {
				case <-stopProgress:
					return
				case <-tk.C:
					e.mu.Lock()
					q, b := len(e.stack), e.busy
					e.mu.Unlock()
					var sb strings.Builder
					for _, js := range states {
						js.mu.Lock()
						if js.pending > 0 || js.res.Paths > 0 {
							fmt.Fprintf(&sb, " [%s: %d paths, %d pending, %.0fs solver]", js.job.ID, js.res.Paths, js.pending, js.res.SolverSeconds)
						}
						js.mu.Unlock()
					}
					fmt.Fprintf(os.Stderr, "progress: queue=%d busy=%d%s\n", q, b, sb.String())
				}
			}
		}()
	}
	defer close(stopProgress)
	for i := 0; i < e.Workers; i++ {
		w, err := e.newWorker(i)
		if err != nil {
			return nil, err
		}
		wg.Add(1)
		go func() {
			defer wg.Done()
			defer w.sol.Close()
			w.loop()
		}()
	}
	wg.Wait()
	close(errs)
	var out []*JobResult
	for _, js := range states {
		js.res.Complete = js.res.BoundExceeded == 0 && len(js.res.EngineErrors) == 0
		for f := range js.funcs {
			js.res.Funcs = append(js.res.Funcs, f.String())
		}
		sort.Strings(js.res.Funcs)
		for _, v := range js.vioIdx {
			js.res.Violations = append(js.res.Violations, v)
		}
		sort.Slice(js.res.Violations, func(a, b int) bool {
			return js.res.Violations[a].AssertID+js.res.Violations[a].Site < js.res.Violations[b].AssertID+js.res.Violations[b].Site
		})
		out = append(out, &js.res)
	}
	return out, nil
}

func (w *Worker) loop() {
	e := w.eng
	for {
		e.mu.Lock()
		for len(e.stack) == 0 && e.busy > 0 && !e.stopped {
			e.cond.Wait()
		}
		if len(e.stack) == 0 || e.stopped {
			e.mu.Unlock()
			e.cond.Broadcast()
			return
		}
		it := e.stack[len(e.stack)-1]
		e.stack = e.stack[:len(e.stack)-1]
		e.busy++
		e.mu.Unlock()

		w.runPath(it)

		e.mu.Lock()
		e.busy--
		e.mu.Unlock()
		e.cond.Broadcast()
	}
}

func (e *Engine) push(js *JobState, prefix []int64) {
	js.mu.Lock()
	js.pending++
	over := js.job.MaxPaths > 0 && js.res.Paths+js.pending > js.job.MaxPaths
	if over {
		js.pending--
		js.res.BoundExceeded++
	}
	js.mu.Unlock()
	if over {
		return
	}
	p := make([]int64, len(prefix))
	copy(p, prefix)
	e.mu.Lock()
	e.stack = append(e.stack, workItem{js: js, prefix: p})
	e.mu.Unlock()
	e.cond.Signal()
}

func (w *Worker) resetPath(it workItem) {
	w.js = it.js
	w.prefix = it.prefix
	w.pos = 0
	w.decisions = w.decisions[:0]
	w.pc = w.pc[:0]
	w.dom = map[*Term]*domain{}
	w.multi = map[*Term]bool{}
	w.pcUncertain = false
	w.steps = 0
	w.depth = 0
	w.nondets = nil
	w.observes = nil
	w.vfs = nil
	w.noSummaries = false
	w.encoded = nil
	w.jsonStore = nil
	w.usedSolver = false
	w.mapOrderNondet = false
	if w.tables == nil || len(w.tableBySig) > 50000 {
		w.tables = map[*value]*Table{}
		w.tableBySig = map[string]*Table{}
	}
	w.heavyCache = map[tkey]*Term{}
	w.nvar = 0
	w.tb.Reset()
	w.sol.NewPath()
	w.aChecks, w.aTriv, w.aUnsat, w.aSat, w.aUnk, w.propDecided = 0, 0, 0, 0, 0, 0
	w.violations = nil
	w.undecided = nil
	w.funcsSeen = map[*ssa.Function]bool{}
	w.sched = nil
}

func (w *Worker) runPath(it workItem) {
	w.resetPath(it)
	q0, s0, u0, k0, e0, t0 := w.sol.Queries, w.sol.NSat, w.sol.NUnsat, w.sol.NUnk, w.sol.Errors, w.sol.Time
	outcome := "ok"
	var engErr string
	func() {
		defer func() {
			r := recover()
			if r == nil {
				return
			}
			switch r := r.(type) {
			case pathEnd:
				outcome = "end:" + r.reason
			case targetPanic:
				outcome = "panic"
				w.reportPanic(r)
			case engineError:
				if strings.HasPrefix(r.msg, "bound:") {
					outcome = "bound"
				} else {
					outcome = "engine-error"
				}
				engErr = r.msg
			default:
				outcome = "engine-error"
				engErr = fmt.Sprintf("internal: %v\n%s", r, debug.Stack())
			}
		}()
		w.callSSA(nil, token.NoPos, it.js.fn, nil, nil)
		if w.sched != nil {
			w.sched.finish()
		}
	}()

	if strings.HasPrefix(engErr, "solver process died") && it.retries < 3 {
		// transient: run the same path again with the restarted solver
		it.retries++
		it.js.mu.Lock()
		it.js.res.SolverRestarts++
		it.js.mu.Unlock()
		w.eng.mu.Lock()
		w.eng.stack = append(w.eng.stack, it)
		w.eng.mu.Unlock()
		w.eng.cond.Signal()
		return
	}
	if outcome == "engine-error" && !strings.HasPrefix(engErr, "solver process died") && !strings.HasPrefix(engErr, "internal:") {
		// The engine could not execute this path (unmodelled library behaviour, e.g. a
		// symbolic format string).  Record a "probe": concrete values that reach this
		// point, for the checker to run natively.  A native panic or assertion failure
		// on them is a confirmed counterexample; otherwise the path stays incomplete.
		if m, r := w.model(); r == Sat {
			site := engErr
			if len(site) > 120 {
				site = site[:120]
			}
			w.violations = append(w.violations, &Violation{
				AssertID: "engine-error", Kind: "probe", Site: site,
				Values: w.recsFromModel(m), Observes: w.evalObserves(m),
			})
		}
	}
	var wit *Witness
	js := it.js
	js.mu.Lock()
	wantWitness := outcome == "ok" && len(js.res.Witnesses) < js.job.Witness
	js.mu.Unlock()
	if wantWitness {
		wit = w.makeWitness(outcome)
	}

	js.mu.Lock()
	defer js.mu.Unlock()
	js.pending--
	js.res.Paths++
	js.res.Outcomes[outcome]++
	if outcome == "bound" {
		js.res.BoundExceeded++
	}
	if engErr != "" {
		k := engErr
		if len(k) > 300 {
			k = k[:300]
		}
		js.res.EngineErrors[k]++
	}
	js.res.AssertChecks += w.aChecks
	js.res.AssertTrivial += w.aTriv
	js.res.AssertUnsat += w.aUnsat
	js.res.AssertSat += w.aSat
	js.res.AssertUnknown += w.aUnk
	js.res.PropDecided += w.propDecided
	js.res.Queries += w.sol.Queries - q0
	js.res.QSat += w.sol.NSat - s0
	js.res.QUnsat += w.sol.NUnsat - u0
	js.res.QUnknown += w.sol.NUnk - k0
	js.res.QErrors += w.sol.Errors - e0
	js.res.SolverSeconds += (w.sol.Time - t0).Seconds()
	js.res.Steps += int64(w.steps)
	if w.usedSolver {
		js.res.PathsNeedingSolver++
	}
	if len(w.decisions) > js.res.MaxDecisions {
		js.res.MaxDecisions = len(w.decisions)
	}
	for f := range w.funcsSeen {
		js.funcs[f] = true
	}
	for _, v := range w.violations {
		key := v.Kind + "|" + v.AssertID + "|" + v.Site
		if old, ok := js.vioIdx[key]; ok {
			old.Count++
		} else {
			v.Count = 1
			js.vioIdx[key] = v
		}
	}
	if len(js.res.Undecided) < 50 {
		js.res.Undecided = append(js.res.Undecided, w.undecided...)
	}
	if wit != nil && len(js.res.Witnesses) < js.job.Witness {
		js.res.Witnesses = append(js.res.Witnesses, *wit)
	}
	js.res.WallSeconds = time.Since(js.start).Seconds()
}

// ---- decisions ----

func (w *Worker) following() bool { return w.pos < len(w.prefix) }

func (w *Worker) addPC(c *Term) {
	if c.IsTrue() {
		return
	}
	w.pc = append(w.pc, c)
	w.sol.Assert(c)
	w.noteConstraint(c)
	w.tb.Refine(c)
}

// noteConstraint updates the propagator state for an added constraint.
func (w *Worker) noteConstraint(c *Term) {
	if c.nvars == 1 {
		if d := w.dom[c.v1]; d != nil {
			nd, _ := w.split(d, c.v1, c)
			w.dom[c.v1] = nd
			if lo, hi, ok := nd.minmax(); ok {
				w.tb.SetVarRange(c.v1, lo, hi)
			}
			return
		}
		// single variable without a tracked domain: the solver has it; it does not
		// interact with tracked variables.
		return
	}
	if c.nvars == 2 {
		seen := map[*Term]bool{}
		var walk func(t *Term)
		walk = func(t *Term) {
			if t == nil || t.nvars == 0 || seen[t] {
				return
			}
			seen[t] = true
			if t.op == OpVar {
				w.multi[t] = true
				return
			}
			walk(t.a)
			walk(t.b)
			walk(t.c)
		}
		walk(c)
	}
}

// split partitions domain d of variable v by condition c (which mentions only v).
func (w *Worker) split(d *domain, v *Term, c *Term) (dt, df *domain) {
	dt = &domain{lo: d.lo, n: d.n, bits: make([]uint64, len(d.bits))}
	df = &domain{lo: d.lo, n: d.n, bits: make([]uint64, len(d.bits))}
	env := &evalEnv{vals: map[*Term]uint64{}, memo: map[*Term]uint64{}}
	for i := 0; i < d.n; i++ {
		if !d.has(i) {
			continue
		}
		env.vals[v] = uint64(d.lo+int64(i)) & mask(v.w)
		for k := range env.memo {
			delete(env.memo, k)
		}
		if env.eval(c) == 1 {
			dt.bits[i/64] |= 1 << (i % 64)
			dt.count++
		} else {
			df.bits[i/64] |= 1 << (i % 64)
			df.count++
		}
	}
	return
}

// feasibility of pc ∧ c: (yes, no, unknown→treated as yes)
func (w *Worker) checkAlive() {
	if w.sol.Died {
		panic(engineError{"solver process died during this path (context lost)"})
	}
}

func (w *Worker) feasible(c *Term) (bool, bool) {
	w.checkAlive()
	r := w.sol.Check(c)
	w.usedSolver = true
	w.checkAlive()
	switch r {
	case Unsat:
		return false, true
	case Sat:
		return true, true
	}
	return true, false
}

// branch decides a symbolic condition, forking when both sides are feasible.
func (w *Worker) branch(c *Term) bool {
	if c.op == OpConst {
		return c.val == 1
	}
	tb := w.tb
	if w.following() {
		d := w.prefix[w.pos]
		w.pos++
		w.decisions = append(w.decisions, d)
		if d == 1 {
			w.addPC(c)
			return true
		}
		w.addPC(tb.Not(c))
		return false
	}
	if len(w.decisions) >= w.eng.maxDecisions() {
		panic(engineError{"bound: decision depth exceeded"})
	}
	feasT, feasF := true, true
	decided := false
	if !w.eng.NoPropagator && c.nvars == 1 {
		if d := w.dom[c.v1]; d != nil {
			dt, df := w.split(d, c.v1, c)
			if dt.count == 0 {
				feasT, decided = false, true
			} else if df.count == 0 {
				feasF, decided = false, true
			} else if !w.multi[c.v1] && !w.pcUncertain {
				decided = true
			}
			if decided {
				w.propDecided++
			}
		}
	}
	if !decided {
		okT, certT := w.feasible(c)
		if !okT {
			feasT = false
			// pc is satisfiable, so ¬c must be feasible
		} else {
			okF, certF := w.feasible(tb.Not(c))
			feasF = okF
			if !certT || !certF {
				w.pcUncertain = true
			}
		}
	}
	switch {
	case feasT && feasF:
		alt := append(append([]int64{}, w.decisions...), 0)
		w.eng.push(w.js, alt)
		w.decisions = append(w.decisions, 1)
		w.addPC(c)
		return true
	case feasT:
		w.decisions = append(w.decisions, 1)
		w.addPC(c)
		return true
	case feasF:
		w.decisions = append(w.decisions, 0)
		w.addPC(tb.Not(c))
		return false
	}
	// both infeasible: pc itself was unsat (only after an "unknown")
	panic(pathEnd{"infeasible"})
}

func (e *Engine) maxDecisions() int { return 100000 }

// branchV is branch for a value that may be a Go bool.
func (w *Worker) branchV(v value) bool {
	switch c := v.(type) {
	case bool:
		return c
	case *Term:
		return w.branch(c)
	}
	panic(engineError{fmt.Sprintf("branch on %T", v)})
}

// assume adds c to the path condition; the path ends if it is infeasible.
func (w *Worker) assume(c *Term) {
	if c.op == OpConst {
		if c.val == 0 {
			panic(pathEnd{"assume"})
		}
		return
	}
	if w.following() {
		w.pos++
		w.decisions = append(w.decisions, 1)
		w.addPC(c)
		return
	}
	ok := true
	decided := false
	if !w.eng.NoPropagator && c.nvars == 1 {
		if d := w.dom[c.v1]; d != nil {
			dt, _ := w.split(d, c.v1, c)
			if dt.count == 0 {
				ok, decided = false, true
			} else if !w.multi[c.v1] && !w.pcUncertain {
				decided = true
			}
		}
	}
	if !decided {
		var cert bool
		ok, cert = w.feasible(c)
		if !cert {
			w.pcUncertain = true
		}
	}
	if !ok {
		panic(pathEnd{"assume"})
	}
	w.decisions = append(w.decisions, 1)
	w.addPC(c)
}

// choose returns a nondeterministic value in [0,n), exploring all of them.
func (w *Worker) choose(n int) int {
	if n <= 1 {
		return 0
	}
	if w.following() {
		d := w.prefix[w.pos]
		w.pos++
		w.decisions = append(w.decisions, d)
		return int(d)
	}
	for k := n - 1; k >= 1; k-- {
		alt := append(append([]int64{}, w.decisions...), int64(k))
		w.eng.push(w.js, alt)
	}
	w.decisions = append(w.decisions, 0)
	return 0
}

// permute returns a nondeterministically chosen permutation.
func (w *Worker) permute(in []*mapEntry) []*mapEntry {
	rest := append([]*mapEntry{}, in...)
	var out []*mapEntry
	for len(rest) > 1 {
		k := w.choose(len(rest))
		out = append(out, rest[k])
		rest = append(rest[:k], rest[k+1:]...)
	}
	return append(out, rest...)
}

// concretize case-splits a symbolic integer over its feasible values.
func (w *Worker) concretize(t *Term, signed bool, what string) int64 {
	if t.IsConst() {
		if signed {
			return t.S()
		}
		return int64(t.val)
	}
	tb := w.tb
	for n := 0; n < 300; n++ {
		var v uint64
		if w.following() {
			// the value is stored in the decision list, followed by the branch decision
			v = uint64(w.prefix[w.pos])
			w.pos++
			w.decisions = append(w.decisions, int64(v))
		} else {
			r, m := w.sol.CheckModel(TrueT, w.varsOf(t))
			w.usedSolver = true
			if r != Sat {
				if r == Unsat {
					panic(pathEnd{"infeasible"})
				}
				panic(engineError{"bound: cannot concretize " + what + " (solver unknown)"})
			}
			v = Eval(t, w.fillModel(m, t))
			w.decisions = append(w.decisions, int64(v))
		}
		if w.branch(tb.Cmp(OpEq, t, K(t.w, v))) {
			if signed {
				return sext(v, t.w)
			}
			return int64(v)
		}
	}
	panic(engineError{"bound: more than 300 feasible values for " + what})
}

func (w *Worker) varsOf(t *Term) []*Term {
	seen := map[*Term]bool{}
	var out []*Term
	var walk func(t *Term)
	walk = func(t *Term) {
		if t == nil || t.nvars == 0 || seen[t] {
			return
		}
		seen[t] = true
		if t.op == OpVar {
			out = append(out, t)
			return
		}
		walk(t.a)
		walk(t.b)
		walk(t.c)
	}
	walk(t)
	return out
}

func (w *Worker) fillModel(m map[*Term]uint64, t *Term) map[*Term]uint64 {
	for _, v := range w.varsOf(t) {
		if _, ok := m[v]; !ok {
			m[v] = 0
		}
	}
	return m
}

func (w *Worker) tableFor(elems []value, width uint8) *Table {
	key := &elems[0]
	vals := make([]uint64, len(elems))
	for i, e := range elems {
		vals[i] = e.(*Term).val
	}
	if t, ok := w.tables[key]; ok && len(t.vals) == len(vals) {
		same := true
		for i := range vals {
			if t.vals[i] != vals[i] {
				same = false
				break
			}
		}
		if same {
			return t
		}
	}
	w.nextTable++
	t := &Table{id: w.nextTable, w: width, vals: vals}
	w.tables[key] = t
	return t
}

func maxInt(a, b int) int {
	if a > b {
		return a
	}
	return b
}

// afterConcretize re-derives single-variable facts from multi-variable path
// constraints once v has become a constant.
func (w *Worker) afterConcretize(v *Term) {
	memo := map[*Term]*Term{}
	for _, c := range w.pc {
		if c.nvars != 2 {
			continue
		}
		uses := false
		for _, x := range w.varsOf(c) {
			if x == v {
				uses = true
			}
		}
		if !uses {
			continue
		}
		c2 := w.tb.Rebuild(c, memo)
		if c2 != c && c2.nvars <= 1 && !c2.IsConst() {
			w.noteConstraint(c2)
			w.tb.Refine(c2)
		}
	}
}

// ---- nondet values ----

func (w *Worker) freshVar(name string, width uint8) *Term {
	w.nvar++
	clean := strings.Map(func(r rune) rune {
		if (r >= 'a' && r <= 'z') || (r >= 'A' && r <= 'Z') || (r >= '0' && r <= '9') || r == '_' {
			return r
		}
		return '_'
	}, name)
	v := w.tb.Var(fmt.Sprintf("v%d_%s", w.nvar, clean), width)
	w.sol.Declare(v)
	if width == 8 {
		w.dom[v] = newDomain(0, 256)
	}
	return v
}

// ---- assertions, panics, witnesses ----

func (w *Worker) model() (map[*Term]uint64, Result) {
	w.checkAlive()
	r, m := w.sol.CheckModel(TrueT, w.tb.vars)
	w.usedSolver = true
	w.checkAlive()
	return m, r
}

func (w *Worker) recsFromModel(m map[*Term]uint64) []NondetRec {
	out := make([]NondetRec, len(w.nondets))
	for i, nd := range w.nondets {
		r := NondetRec{Name: nd.Name, Kind: nd.Kind, Len: nd.Len}
		switch nd.Kind {
		case "string":
			bs := make([]int, len(nd.terms))
			for j, t := range nd.terms {
				bs[j] = int(m[t])
			}
			r.Val = bs
		case "choice", "sched":
			r.Val = nd.Val
		case "bool":
			r.Val = m[nd.terms[0]] == 1
		case "byte":
			r.Val = int(m[nd.terms[0]])
		default:
			r.Val = sext(m[nd.terms[0]], nd.terms[0].w)
		}
		out[i] = r
	}
	return out
}

func (w *Worker) evalObserves(m map[*Term]uint64) []ObserveRec {
	var out []ObserveRec
	for _, o := range w.observes {
		out = append(out, ObserveRec{Name: o.name, Val: w.render(o.v, m)})
	}
	return out
}

// render produces the canonical text of a value under a model (must match
// zzverif.Observe's native rendering).
func (w *Worker) render(v value, m map[*Term]uint64) string {
	ev := func(t *Term) uint64 {
		for _, x := range w.varsOf(t) {
			if _, ok := m[x]; !ok {
				m[x] = 0
			}
		}
		return Eval(t, m)
	}
	switch v := v.(type) {
	case iface:
		if v.t == nil {
			return "nil"
		}
		if _, signed, ok := intInfo(v.t); ok {
			t := v.v.(*Term)
			x := ev(t)
			if signed {
				return fmt.Sprint(sext(x, t.w))
			}
			return fmt.Sprint(x)
		}
		return w.render(v.v, m)
	case *Term:
		x := ev(v)
		if v.w == 0 {
			return fmt.Sprint(x == 1)
		}
		return fmt.Sprint(sext(x, v.w))
	case bool:
		return fmt.Sprint(v)
	case string:
		return fmt.Sprintf("%q", v)
	case *SymStr:
		bs := make([]byte, len(v.b))
		for i, t := range v.b {
			bs[i] = byte(ev(t))
		}
		return fmt.Sprintf("%q", string(bs))
	case float64:
		return fmt.Sprint(v)
	}
	return fmt.Sprintf("<%T>", v)
}

func (w *Worker) makeWitness(outcome string) *Witness {
	m, r := w.model()
	if r != Sat {
		return nil
	}
	return &Witness{Decisions: len(w.decisions), Values: w.recsFromModel(m), Observes: w.evalObserves(m), Outcome: outcome}
}

// assertT checks an assertion: pc ∧ ¬c must be unsatisfiable.  It consumes one
// decision entry: 2 = holds (implied by pc), 1 = violated on some values but
// feasible (continue under c), path end if c is infeasible.
func (w *Worker) assertT(fr *frame, c *Term, id string) {
	if c.IsConst() {
		if !w.following() {
			w.aChecks++
			if c.IsTrue() {
				w.aTriv++
			} else {
				w.aSat++
				m, r := w.model()
				if r == Sat {
					w.violations = append(w.violations, &Violation{
						AssertID: id, Kind: "assert", Site: fr.caller.site(), Stack: fr.caller.stack(6),
						Values: w.recsFromModel(m), Observes: w.evalObserves(m),
					})
				} else if r == Unknown {
					w.undecided = append(w.undecided, Undecided{AssertID: id, Site: fr.caller.site(), Reason: "assert(false) reached, path condition unknown"})
				}
			}
		}
		if c.IsFalse() {
			panic(pathEnd{"assert-failed"})
		}
		return
	}
	if w.following() {
		// already checked on the ancestor path under the same path condition
		d := w.prefix[w.pos]
		w.pos++
		w.decisions = append(w.decisions, d)
		// proven (2) or assumed (1): either way c holds from here on
		w.addPC(c)
		return
	}
	w.aChecks++
	neg := w.tb.Not(c)
	var r Result
	var m map[*Term]uint64
	done := false
	if !w.eng.NoPropagator && neg.nvars == 1 && !w.pcUncertain {
		if d := w.dom[neg.v1]; d != nil {
			dt, _ := w.split(d, neg.v1, neg)
			if dt.count == 0 {
				r, done = Unsat, true
				w.propDecided++
			}
		}
	}
	if !done {
		w.checkAlive()
		r, m = w.sol.CheckModel(neg, w.tb.vars)
		w.usedSolver = true
		w.checkAlive()
	}
	switch r {
	case Unsat:
		w.aUnsat++
		w.decisions = append(w.decisions, 2)
		w.addPC(c) // a proven assertion is a lemma for the rest of the path
		return
	case Sat:
		for _, x := range w.tb.vars {
			if _, ok := m[x]; !ok {
				m[x] = 0
			}
		}
		if !w.modelOK(m, neg) {
			// the solver's model does not satisfy the path condition: never trust it
			w.aUnk++
			w.undecided = append(w.undecided, Undecided{AssertID: id, Site: fr.caller.site(), Reason: "solver returned a model that violates the path condition (rejected)"})
			break
		}
		w.aSat++
		w.violations = append(w.violations, &Violation{
			AssertID: id, Kind: "assert", Site: fr.caller.site(), Stack: fr.caller.stack(6),
			Values: w.recsFromModel(m), Observes: w.evalObserves(m),
		})
	default:
		w.aUnk++
		w.undecided = append(w.undecided, Undecided{AssertID: id, Site: fr.caller.site(), Reason: "solver unknown/timeout"})
	}
	ok, cert := w.feasible(c)
	if !cert {
		w.pcUncertain = true
	}
	if !ok {
		panic(pathEnd{"assert-failed"})
	}
	w.decisions = append(w.decisions, 1)
	w.addPC(c)
}

func (w *Worker) reportPanic(p targetPanic) {
	m, r := w.model()
	if r == Sat {
		for _, x := range w.tb.vars {
			if _, ok := m[x]; !ok {
				m[x] = 0
			}
		}
		if !w.modelOK(m, nil) {
			r = Unknown
		}
	}
	msg := describe(p.v)
	if iv, ok := p.v.(iface); ok {
		msg = describe(iv.v)
	}
	if r != Sat {
		if r == Unknown {
			w.undecided = append(w.undecided, Undecided{AssertID: "no-panic", Site: p.site, Reason: "path condition unknown at panic: " + msg})
		}
		return
	}
	w.aSat++
	w.violations = append(w.violations, &Violation{
		AssertID: "no-panic", Kind: "panic", Site: p.site, Message: msg,
		Values: w.recsFromModel(m), Observes: w.evalObserves(m),
	})
}

// modelOK evaluates the path condition and extra under the model.
func (w *Worker) modelOK(m map[*Term]uint64, extra *Term) bool {
	env := &evalEnv{vals: m, memo: map[*Term]uint64{}}
	ok := true
	func() {
		defer func() {
			if recover() != nil {
				ok = false
			}
		}()
		for _, c := range w.pc {
			if env.eval(c) != 1 {
				ok = false
				return
			}
		}
		if extra != nil && env.eval(extra) != 1 {
			ok = false
		}
	}()
	return ok
}
