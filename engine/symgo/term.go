// Package symgo is a bounded symbolic executor for Go SSA (golang.org/x/tools/go/ssa).
//
// The overall structure of the concrete part of the interpreter (boxed values,
// frames, defers, panics) follows golang.org/x/tools/go/ssa/interp
// (Copyright 2013 The Go Authors, BSD-style licence, see LICENSE.xtools);
// the symbolic value domain, path exploration, SMT back end and library
// models are written for this project.
package symgo

import (
	"fmt"
	"strings"
)

// Op is a term operator.
type Op uint8

const (
	OpConst Op = iota
	OpVar
	OpAdd
	OpSub
	OpMul
	OpUDiv
	OpSDiv
	OpURem
	OpSRem
	OpAnd
	OpOr
	OpXor
	OpShl
	OpLShr
	OpAShr
	OpNot // bvnot
	OpNeg
	OpEq   // bool result, bv or bool args
	OpULt  // bool
	OpULe  // bool
	OpSLt  // bool
	OpSLe  // bool
	OpBAnd // bool and
	OpBOr
	OpBNot
	OpIte     // a ? b : c   (b,c bv or bool)
	OpZext    // to width w
	OpSext    // to width w
	OpExtract // low w bits starting at bit val
	OpTable   // tbl[a]
)

var opSMT = map[Op]string{
	OpAdd: "bvadd", OpSub: "bvsub", OpMul: "bvmul", OpUDiv: "bvudiv", OpSDiv: "bvsdiv",
	OpURem: "bvurem", OpSRem: "bvsrem", OpAnd: "bvand", OpOr: "bvor", OpXor: "bvxor",
	OpShl: "bvshl", OpLShr: "bvlshr", OpAShr: "bvashr", OpNot: "bvnot", OpNeg: "bvneg",
	OpULt: "bvult", OpULe: "bvule", OpSLt: "bvslt", OpSLe: "bvsle",
	OpBAnd: "and", OpBOr: "or", OpBNot: "not", OpIte: "ite", OpEq: "=",
}

// Table is a constant lookup table (global arrays indexed by a symbolic value).
type Table struct {
	id   int
	w    uint8 // element width
	vals []uint64
}

// Term is a bit-vector (w>0) or boolean (w==0) term.
type Term struct {
	op      Op
	w       uint8
	val     uint64 // const value, extract low bit
	a, b, c *Term
	name    string
	id      int32
	tbl     *Table
	// cached analysis
	nvars uint8 // 0 none, 1 exactly one (v1), 2 many
	v1    *Term
}

func mask(w uint8) uint64 {
	if w >= 64 {
		return ^uint64(0)
	}
	return (uint64(1) << w) - 1
}

var (
	TrueT  = &Term{op: OpConst, w: 0, val: 1}
	FalseT = &Term{op: OpConst, w: 0, val: 0}
)

var smallConsts [65][]*Term

func init() {
	for _, w := range []uint8{8, 16, 32, 64} {
		smallConsts[w] = make([]*Term, 300)
		for i := range smallConsts[w] {
			v := uint64(i)
			smallConsts[w][i] = &Term{op: OpConst, w: w, val: v}
		}
	}
}

// K makes a constant of width w.
func K(w uint8, v uint64) *Term {
	if w == 0 {
		if v&1 != 0 {
			return TrueT
		}
		return FalseT
	}
	v &= mask(w)
	if v < 300 && smallConsts[w] != nil {
		return smallConsts[w][v]
	}
	return &Term{op: OpConst, w: w, val: v}
}

func KB(b bool) *Term {
	if b {
		return TrueT
	}
	return FalseT
}

func (t *Term) IsConst() bool { return t.op == OpConst }
func (t *Term) IsTrue() bool  { return t == TrueT }
func (t *Term) IsFalse() bool { return t == FalseT }

// S returns the constant as signed int64 according to width.
func (t *Term) S() int64 { return sext(t.val, t.w) }
func (t *Term) U() uint64 { return t.val }

func sext(v uint64, w uint8) int64 {
	if w == 0 || w >= 64 {
		return int64(v)
	}
	sh := 64 - uint(w)
	return int64(v<<sh) >> sh
}

type tkey struct {
	op      Op
	w       uint8
	val     uint64
	a, b, c *Term
	tbl     *Table
}

// TB is a term builder (one per worker/path): hash-consing, ids, variable registry.
type TB struct {
	tab    map[tkey]*Term
	consts map[[2]uint64]*Term
	nextID int32
	vars   []*Term
	NoSimp bool
	linFlat bool
	// path-sensitive interval refinements and the interval memo
	refU   map[*Term][2]uint64
	refS   map[*Term][2]int64
	ivmemo map[*Term]ivl
	wideU  map[*Term][]*Term
	wideS  map[*Term][]*Term
	Rules  map[string]int // how often each rewrite rule fired
	// Heavy, when set, is consulted for wide mul/div/rem nodes that no rule removed.
	Heavy func(op Op, a, b *Term) *Term
}

func NewTB() *TB { return &TB{tab: map[tkey]*Term{}, consts: map[[2]uint64]*Term{}, nextID: 1,
		refU: map[*Term][2]uint64{}, refS: map[*Term][2]int64{}, ivmemo: map[*Term]ivl{}, Rules: map[string]int{},
		wideU: map[*Term][]*Term{}, wideS: map[*Term][]*Term{}} }

func (tb *TB) Reset() {
	tb.tab = map[tkey]*Term{}
	tb.consts = map[[2]uint64]*Term{}
	tb.refU = map[*Term][2]uint64{}
	tb.refS = map[*Term][2]int64{}
	tb.ivmemo = map[*Term]ivl{}
	tb.wideU = map[*Term][]*Term{}
	tb.wideS = map[*Term][]*Term{}
	tb.nextID = 1
	tb.vars = nil
}

// Var creates a fresh variable.
func (tb *TB) Var(name string, w uint8) *Term {
	t := &Term{op: OpVar, w: w, name: name, id: tb.nextID, nvars: 1}
	t.v1 = t
	tb.nextID++
	tb.vars = append(tb.vars, t)
	return t
}

func (tb *TB) mk(op Op, w uint8, val uint64, a, b, c *Term, tbl *Table) *Term {
	k := tkey{op, w, val, a, b, c, tbl}
	// consts are not pointer-unique; normalise constants in key by value
	if t, ok := tb.tab[k]; ok {
		return t
	}
	t := &Term{op: op, w: w, val: val, a: a, b: b, c: c, tbl: tbl, id: tb.nextID}
	tb.nextID++
	// vars analysis
	for _, x := range []*Term{a, b, c} {
		if x == nil || x.nvars == 0 {
			continue
		}
		if x.nvars == 2 {
			t.nvars = 2
			break
		}
		if t.nvars == 0 {
			t.nvars, t.v1 = 1, x.v1
		} else if t.v1 != x.v1 {
			t.nvars = 2
			break
		}
	}
	if t.nvars == 2 {
		t.v1 = nil
	}
	tb.tab[k] = t
	return t
}

// canonical constant pointer for hash-consing keys
func (tb *TB) ck(t *Term) *Term {
	if t != nil && t.op == OpConst && t.w != 0 {
		if t.val < 300 && smallConsts[t.w] != nil {
			return smallConsts[t.w][t.val]
		}
		k := [2]uint64{uint64(t.w), t.val}
		if c, ok := tb.consts[k]; ok {
			return c
		}
		tb.consts[k] = t
	}
	return t
}

// ---- evaluation under an assignment ----

type evalEnv struct {
	vals map[*Term]uint64
	memo map[*Term]uint64
}

func (e *evalEnv) eval(t *Term) uint64 {
	switch t.op {
	case OpConst:
		return t.val
	case OpVar:
		v, ok := e.vals[t]
		if !ok {
			panic("symgo: eval: unassigned var " + t.name)
		}
		return v
	}
	if t.nvars == 0 {
		// should have been folded, but evaluate anyway
	}
	if v, ok := e.memo[t]; ok {
		return v
	}
	var r uint64
	switch t.op {
	case OpEq, OpULt, OpULe, OpSLt, OpSLe:
		if evalCmp(t.op, t.a.w, e.eval(t.a), e.eval(t.b)) {
			r = 1
		}
	case OpBAnd:
		r = e.eval(t.a) & e.eval(t.b)
	case OpBOr:
		r = e.eval(t.a) | e.eval(t.b)
	case OpBNot:
		r = 1 - e.eval(t.a)
	case OpIte:
		if e.eval(t.a) == 1 {
			r = e.eval(t.b)
		} else {
			r = e.eval(t.c)
		}
	case OpNot:
		r = ^e.eval(t.a) & mask(t.w)
	case OpNeg:
		r = -e.eval(t.a) & mask(t.w)
	case OpZext:
		r = e.eval(t.a)
	case OpSext:
		r = uint64(sext(e.eval(t.a), t.a.w)) & mask(t.w)
	case OpExtract:
		r = (e.eval(t.a) >> t.val) & mask(t.w)
	case OpTable:
		i := e.eval(t.a)
		if i < uint64(len(t.tbl.vals)) {
			r = t.tbl.vals[i]
		}
	default:
		r, _ = evalBin(t.op, t.w, e.eval(t.a), e.eval(t.b))
	}
	e.memo[t] = r
	return r
}

// Eval evaluates t under assignment vals.
func Eval(t *Term, vals map[*Term]uint64) uint64 {
	e := &evalEnv{vals: vals, memo: map[*Term]uint64{}}
	return e.eval(t)
}

// ---- SMT-LIB printing ----

func sortOf(w uint8) string {
	if w == 0 {
		return "Bool"
	}
	return fmt.Sprintf("(_ BitVec %d)", w)
}

func (t *Term) ref() string {
	switch t.op {
	case OpConst:
		if t.w == 0 {
			if t.val == 1 {
				return "true"
			}
			return "false"
		}
		if t.w%4 == 0 {
			return fmt.Sprintf("#x%0*x", int(t.w/4), t.val)
		}
		return fmt.Sprintf("(_ bv%d %d)", t.val, t.w)
	case OpVar:
		return t.name
	}
	return fmt.Sprintf("t%d", t.id)
}

// body renders the defining expression of a non-leaf term.
func (t *Term) body() string {
	switch t.op {
	case OpZext:
		return fmt.Sprintf("((_ zero_extend %d) %s)", t.w-t.a.w, t.a.ref())
	case OpSext:
		return fmt.Sprintf("((_ sign_extend %d) %s)", t.w-t.a.w, t.a.ref())
	case OpExtract:
		return fmt.Sprintf("((_ extract %d %d) %s)", uint64(t.w)+t.val-1, t.val, t.a.ref())
	case OpTable:
		return fmt.Sprintf("(%s %s)", t.tbl.name(t.a.w), t.a.ref())
	case OpNot, OpNeg, OpBNot:
		return fmt.Sprintf("(%s %s)", opSMT[t.op], t.a.ref())
	case OpIte:
		return fmt.Sprintf("(ite %s %s %s)", t.a.ref(), t.b.ref(), t.c.ref())
	}
	return fmt.Sprintf("(%s %s %s)", opSMT[t.op], t.a.ref(), t.b.ref())
}

// tableDef renders the define-fun of a lookup table for index width iw.
func (tbl *Table) name(iw uint8) string { return fmt.Sprintf("tbl%d_%d", tbl.id, iw) }

func (tbl *Table) def(iw uint8) string {
	var sb strings.Builder
	fmt.Fprintf(&sb, "(define-fun %s ((i (_ BitVec %d))) (_ BitVec %d) ", tbl.name(iw), iw, tbl.w)
	// run-length compressed ite chain on i
	type run struct {
		end uint64 // inclusive
		v   uint64
	}
	var runs []run
	for i, v := range tbl.vals {
		if len(runs) > 0 && runs[len(runs)-1].v == v {
			runs[len(runs)-1].end = uint64(i)
		} else {
			runs = append(runs, run{uint64(i), v})
		}
	}
	closes := 0
	for i, r := range runs {
		if i == len(runs)-1 {
			sb.WriteString(K(tbl.w, r.v).ref())
		} else {
			fmt.Fprintf(&sb, "(ite (bvule i %s) %s ", K(iw, r.end).ref(), K(tbl.w, r.v).ref())
			closes++
		}
	}
	sb.WriteString(strings.Repeat(")", closes))
	sb.WriteString(")")
	return sb.String()
}

func (t *Term) String() string {
	if t.op == OpConst || t.op == OpVar {
		return t.ref()
	}
	return t.deep(4)
}

func (t *Term) deep(d int) string {
	if t.op == OpConst || t.op == OpVar {
		return t.ref()
	}
	if d == 0 {
		return "…"
	}
	switch t.op {
	case OpZext, OpSext, OpExtract, OpNot, OpNeg, OpBNot, OpTable:
		return fmt.Sprintf("(%d:%d %s)", t.op, t.w, t.a.deep(d-1))
	case OpIte:
		return fmt.Sprintf("(ite %s %s %s)", t.a.deep(d-1), t.b.deep(d-1), t.c.deep(d-1))
	}
	return fmt.Sprintf("(%s %s %s)", opSMT[t.op], t.a.deep(d-1), t.b.deep(d-1))
}
