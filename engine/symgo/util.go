package symgo

import "runtime"

func runtimeGosched() { runtime.Gosched() }
