package symgo

import (
	"fmt"
	"go/types"

	"golang.org/x/tools/go/ssa"
)

type ssaFunc = ssa.Function

// Goroutines of the program under test are coroutines: exactly one runs at a
// time, each runs until it blocks (channel operation, WaitGroup.Wait) or ends.
// The only scheduling nondeterminism that is explored is WHICH pending sender a
// receive takes its value from (all orders, through Worker.choose).

type gor struct {
	id      int
	wake    chan struct{}
	done    bool
	started bool
	fn      value
	args    []value
	// blocking state
	waitCh   *Chan     // blocked receiving on / sending to this channel
	sending  bool
	sendVal  value
	sent     bool // set by the receiver that took the value
	waitWG   *value
	recvVal  value
	recvOK   bool
	received bool
}

type killedGoroutine struct{}

type scheduler struct {
	w      *Worker
	gs     []*gor
	cur    *gor
	abort  interface{}
	killed bool
	wg     map[*value]int
}

func (w *Worker) scheduler() *scheduler {
	if w.sched == nil {
		main := &gor{id: 0, wake: make(chan struct{}), started: true}
		w.sched = &scheduler{w: w, gs: []*gor{main}, cur: main, wg: map[*value]int{}}
	}
	return w.sched
}

func (s *scheduler) runnable(g *gor) bool {
	if g.done {
		return false
	}
	if g.waitCh != nil {
		ch := g.waitCh
		if g.sending {
			return g.sent || ch.closed || len(ch.buf) < ch.cap
		}
		// receiver: runnable if something can be received
		return g.received || len(ch.buf) > 0 || ch.closed || s.pendingSenders(ch) > 0
	}
	if g.waitWG != nil {
		return s.wg[g.waitWG] <= 0
	}
	return true
}

func (s *scheduler) pendingSenders(ch *Chan) int {
	n := 0
	for _, g := range s.gs {
		if !g.done && g.waitCh == ch && g.sending && !g.sent {
			n++
		}
	}
	return n
}

// yield parks the current goroutine and runs others until the current one is runnable again.
func (s *scheduler) yield() {
	me := s.cur
	for {
		if s.abort != nil && me.id == 0 {
			r := s.abort
			s.abort = nil
			panic(r)
		}
		if s.killed {
			panic(killedGoroutine{})
		}
		// pick the next runnable goroutine other than me, in id order after me
		var next *gor
		n := len(s.gs)
		for k := 1; k <= n; k++ {
			g := s.gs[(me.id+k)%n]
			if g != me && s.runnable(g) {
				next = g
				break
			}
		}
		if next == nil {
			if s.runnable(me) {
				return
			}
			panic(engineError{"deadlock: all goroutines are blocked"})
		}
		s.switchTo(next)
		// resumed
		if s.abort != nil && me.id == 0 {
			continue
		}
		if s.killed {
			panic(killedGoroutine{})
		}
		if s.runnable(me) {
			return
		}
	}
}

func (s *scheduler) switchTo(next *gor) {
	me := s.cur
	s.cur = next
	if !next.started {
		next.started = true
		go s.run(next)
	} else {
		next.wake <- struct{}{}
	}
	<-me.wake
	s.cur = me
}

func (s *scheduler) run(g *gor) {
	defer func() {
		r := recover()
		g.done = true
		if r != nil {
			if _, ok := r.(killedGoroutine); ok {
				return // path is being torn down
			}
			if s.abort == nil {
				s.abort = r
			}
		}
		if s.killed {
			return
		}
		// hand control to main if aborting, else to any runnable goroutine
		var next *gor
		if s.abort != nil {
			next = s.gs[0]
		} else {
			for k := 1; k <= len(s.gs); k++ {
				c := s.gs[(g.id+k)%len(s.gs)]
				if c != g && s.runnable(c) {
					next = c
					break
				}
			}
		}
		if next == nil {
			// everybody else is blocked: wake main so that it can report the deadlock
			next = s.gs[0]
			if s.abort == nil {
				s.abort = engineError{"deadlock: all goroutines are blocked"}
			}
		}
		s.cur = next
		if !next.started {
			next.started = true
			go s.run(next)
		} else {
			next.wake <- struct{}{}
		}
	}()
	s.w.call(nil, 0, g.fn, g.args)
}

// finish tears down parked goroutines at the end of a path.
func (s *scheduler) finish() {
	s.killed = true
	for _, g := range s.gs[1:] {
		if g.started && !g.done {
			s.cur = g
			g.wake <- struct{}{}
			// the goroutine panics with killedGoroutine and exits without waking anyone
			for !g.done {
				// busy-wait is bounded: the goroutine only unwinds
				yieldOS()
			}
		}
	}
}

func (w *Worker) spawn(fr *frame, instr *ssa.Go, fn value, args []value) {
	s := w.scheduler()
	g := &gor{id: len(s.gs), wake: make(chan struct{}), fn: fn, args: args}
	s.gs = append(s.gs, g)
}

func (w *Worker) chanSend(fr *frame, ch *Chan, v value) {
	if ch == nil {
		panic(engineError{"send on nil channel (blocks forever)"})
	}
	s := w.scheduler()
	if ch.closed {
		fpanic(fr, "send on closed channel")
	}
	if len(ch.buf) < ch.cap {
		ch.buf = append(ch.buf, v)
		return
	}
	me := s.cur
	me.waitCh, me.sending, me.sendVal, me.sent = ch, true, v, false
	s.yield()
	me.waitCh, me.sending, me.sendVal = nil, false, nil
	if !me.sent {
		if ch.closed {
			fpanic(fr, "send on closed channel")
		}
		// buffer space became available
		ch.buf = append(ch.buf, v)
	}
	me.sent = false
}

func (w *Worker) chanRecv(fr *frame, ch *Chan, commaOk bool) value {
	if ch == nil {
		panic(engineError{"receive from nil channel (blocks forever)"})
	}
	if ch.ticker {
		// a time.Ticker channel: a tick is always ready (the harness controls the clock)
		if commaOk {
			return tuple{zero(ch.elemT), true}
		}
		return zero(ch.elemT)
	}
	s := w.scheduler()
	me := s.cur
	ret := func(v value, ok bool) value {
		if commaOk {
			return tuple{v, ok}
		}
		return v
	}
	for {
		if len(ch.buf) > 0 {
			v := ch.buf[0]
			ch.buf = ch.buf[1:]
			return ret(v, true)
		}
		// pending senders: choose which one delivers
		var snd []*gor
		for _, g := range s.gs {
			if !g.done && g.waitCh == ch && g.sending && !g.sent {
				snd = append(snd, g)
			}
		}
		if len(snd) > 0 {
			k := w.choose(len(snd))
			g := snd[k]
			g.sent = true
			w.nondets = append(w.nondets, NondetRec{Name: "delivery", Kind: "sched", Val: g.id})
			return ret(g.sendVal, true)
		}
		if ch.closed {
			return ret(zero(ch.elemT), false)
		}
		me.waitCh, me.sending = ch, false
		s.yield()
		me.waitCh = nil
	}
}

func (w *Worker) chanClose(fr *frame, ch *Chan) {
	if ch == nil {
		fpanic(fr, "close of nil channel")
	}
	if ch.closed {
		fpanic(fr, "close of closed channel")
	}
	ch.closed = true
}

func (w *Worker) selectOp(fr *frame, instr *ssa.Select) value {
	panic(engineError{"select is not modelled"})
}

func registerSched(e *Engine) {
	reg := func(name string, f intrinsicFn) { e.intrinsics[name] = f }
	reg("(*sync.WaitGroup).Add", func(fr *frame, a []value) value {
		s := fr.w.scheduler()
		s.wg[a[0].(*value)] += int(fr.concInt(a[1], "WaitGroup.Add"))
		if s.wg[a[0].(*value)] < 0 {
			fpanic(fr, "sync: negative WaitGroup counter")
		}
		return nil
	})
	reg("(*sync.WaitGroup).Done", func(fr *frame, a []value) value {
		s := fr.w.scheduler()
		s.wg[a[0].(*value)]--
		if s.wg[a[0].(*value)] < 0 {
			fpanic(fr, "sync: negative WaitGroup counter")
		}
		return nil
	})
	reg("(*sync.WaitGroup).Wait", func(fr *frame, a []value) value {
		s := fr.w.scheduler()
		p := a[0].(*value)
		if s.wg[p] > 0 {
			me := s.cur
			me.waitWG = p
			s.yield()
			me.waitWG = nil
		}
		return nil
	})
	reg("os/signal.Notify", func(fr *frame, a []value) value { return nil })
	reg("os/signal.Stop", func(fr *frame, a []value) value { return nil })
	reg("time.NewTicker", func(fr *frame, a []value) value {
		tt := fr.fn.Signature.Results().At(0).Type() // *time.Ticker
		st := zero(deref(tt)).(structure)
		elem := deref(tt).Underlying().(*types.Struct).Field(0).Type().Underlying().(*types.Chan).Elem()
		st[0] = &Chan{ticker: true, elemT: elem}
		var cell value = st
		return &cell
	})
	reg("(*time.Ticker).Stop", func(fr *frame, a []value) value { return nil })
	reg("(*time.Ticker).Reset", func(fr *frame, a []value) value { return nil })
	reg("os.Exit", func(fr *frame, a []value) value { panic(pathEnd{"os.Exit"}) })
	reg("(*sync.Mutex).Lock", func(fr *frame, a []value) value { return nil })
	reg("(*sync.Mutex).Unlock", func(fr *frame, a []value) value { return nil })
	reg("(*sync.RWMutex).Lock", func(fr *frame, a []value) value { return nil })
	reg("(*sync.RWMutex).Unlock", func(fr *frame, a []value) value { return nil })
	reg("(*sync.RWMutex).RLock", func(fr *frame, a []value) value { return nil })
	reg("(*sync.RWMutex).RUnlock", func(fr *frame, a []value) value { return nil })
	reg("(*sync.Once).Do", func(fr *frame, a []value) value {
		p := a[0].(*value)
		st := (*p).(structure)
		// sync.Once{_ noCopy; done atomic.Uint32; m Mutex} — use an engine-side flag
		key := &st[0]
		s := fr.w.scheduler()
		if s.wg[key] == 0 {
			s.wg[key] = 1
			fr.w.call(fr, 0, a[1], nil)
		}
		return nil
	})
}

var _ = fmt.Sprint
var _ types.Type

func yieldOS() { runtimeGosched() }
