package symgo

import (
	"fmt"
	"go/types"
	"math"
	"strings"
)

const apiPkg = "github.com/jotaen/klog/klog/zzverif"

func registerIntrinsics(e *Engine) {
	reg := func(name string, f intrinsicFn) { e.intrinsics[name] = f }

	// ---- harness API ----
	reg(apiPkg+".Byte", func(fr *frame, a []value) value {
		name := a[0].(string)
		v := fr.w.freshVar(name, 8)
		fr.w.nondets = append(fr.w.nondets, NondetRec{Name: name, Kind: "byte", terms: []*Term{v}})
		return v
	})
	reg(apiPkg+".Int", func(fr *frame, a []value) value {
		name := a[0].(string)
		v := fr.w.freshVar(name, 64)
		fr.w.nondets = append(fr.w.nondets, NondetRec{Name: name, Kind: "int", terms: []*Term{v}})
		return v
	})
	reg(apiPkg+".IntRange", func(fr *frame, a []value) value {
		name := a[0].(string)
		lo, hi := a[1].(*Term).S(), a[2].(*Term).S()
		w := fr.w
		v := w.freshVar(name, 64)
		w.nondets = append(w.nondets, NondetRec{Name: name, Kind: "int", terms: []*Term{v}})
		tb := w.tb
		if hi-lo < 4096 {
			w.dom[v] = newDomain(lo, int(hi-lo+1))
		}
		// the range constraint itself (kept out of the decision list: always feasible)
		c := tb.And(tb.Cmp(OpSLe, K(64, uint64(lo)), v), tb.Cmp(OpSLe, v, K(64, uint64(hi))))
		w.pc = append(w.pc, c)
		w.sol.Assert(c)
		tb.SetVarRange(v, lo, hi)
		return v
	})
	reg(apiPkg+".Bool", func(fr *frame, a []value) value {
		name := a[0].(string)
		v := fr.w.freshVar(name, 0)
		fr.w.nondets = append(fr.w.nondets, NondetRec{Name: name, Kind: "bool", terms: []*Term{v}})
		return v
	})
	reg(apiPkg+".String", func(fr *frame, a []value) value {
		name := a[0].(string)
		n := int(a[1].(*Term).S())
		ts := make([]*Term, n)
		for i := range ts {
			ts[i] = fr.w.freshVar(fmt.Sprintf("%s_%d", name, i), 8)
		}
		fr.w.nondets = append(fr.w.nondets, NondetRec{Name: name, Kind: "string", Len: n, terms: ts})
		return mkStr(ts)
	})
	reg(apiPkg+".Param", func(fr *frame, a []value) value {
		name := a[0].(string)
		v, ok := fr.w.js.job.Params[name]
		if !ok {
			panic(engineError{"missing harness parameter " + name})
		}
		return K(64, uint64(v))
	})
	reg(apiPkg+".ParamOr", func(fr *frame, a []value) value {
		if v, ok := fr.w.js.job.Params[a[0].(string)]; ok {
			return K(64, uint64(v))
		}
		return a[1]
	})
	reg(apiPkg+".Choose", func(fr *frame, a []value) value {
		n := int(a[0].(*Term).S())
		k := fr.w.choose(n)
		fr.w.nondets = append(fr.w.nondets, NondetRec{Name: "choose", Kind: "choice", Val: k})
		return K(64, uint64(k))
	})
	reg(apiPkg+".Assume", func(fr *frame, a []value) value {
		fr.w.assume(asTerm(a[0]))
		return nil
	})
	reg(apiPkg+".Assert", func(fr *frame, a []value) value {
		fr.w.assertT(fr, asTerm(a[0]), a[1].(string))
		return nil
	})
	reg(apiPkg+".Observe", func(fr *frame, a []value) value {
		fr.w.observes = append(fr.w.observes, obsRec{a[0].(string), a[1]})
		return nil
	})
	reg(apiPkg+".And", func(fr *frame, a []value) value {
		return boolV(fr.w.tb.And(asTerm(a[0]), asTerm(a[1])))
	})
	reg(apiPkg+".Or", func(fr *frame, a []value) value {
		return boolV(fr.w.tb.Or(asTerm(a[0]), asTerm(a[1])))
	})
	reg(apiPkg+".Not", func(fr *frame, a []value) value {
		return boolV(fr.w.tb.Not(asTerm(a[0])))
	})
	reg(apiPkg+".Implies", func(fr *frame, a []value) value {
		return boolV(fr.w.tb.Or(fr.w.tb.Not(asTerm(a[0])), asTerm(a[1])))
	})
	reg(apiPkg+".Iff", func(fr *frame, a []value) value {
		return boolV(fr.w.tb.Cmp(OpEq, asTerm(a[0]), asTerm(a[1])))
	})
	reg(apiPkg+".IteInt", func(fr *frame, a []value) value {
		return fr.w.tb.Ite(asTerm(a[0]), a[1].(*Term), a[2].(*Term))
	})
	reg(apiPkg+".MapOrderNondet", func(fr *frame, a []value) value {
		fr.w.mapOrderNondet = a[0].(bool)
		return nil
	})
	reg(apiPkg+".Stop", func(fr *frame, a []value) value {
		panic(pathEnd{"stop"})
	})
	reg(apiPkg+".DeliveryOrder", func(fr *frame, a []value) value { return []value(nil) })
	reg(apiPkg+".Symbolic", func(fr *frame, a []value) value { return true })
	reg(apiPkg+".Concretize", func(fr *frame, a []value) value {
		t := a[0].(*Term)
		return K(64, uint64(fr.w.concretize(t, true, "harness Concretize")))
	})
	// Panics(f): runs f, returns whether it panicked (the panic is swallowed)
	reg(apiPkg+".Panics", func(fr *frame, a []value) value {
		panicked := false
		func() {
			defer func() {
				if r := recover(); r != nil {
					if tp, ok := r.(targetPanic); ok {
						panicked = true
						fr.w.lastRecovered = &tp
						return
					}
					panic(r)
				}
			}()
			fr.w.call(fr, 0, a[0], nil)
		}()
		return panicked
	})
	reg(apiPkg+".LastPanic", func(fr *frame, a []value) value {
		if fr.w.lastRecovered == nil {
			return ""
		}
		return fr.w.lastRecovered.site
	})

	reg(apiPkg+".Encoded", func(fr *frame, a []value) value {
		if len(fr.w.encoded) == 0 {
			return iface{}
		}
		return fr.w.encoded[len(fr.w.encoded)-1]
	})
	registerJSON(e)
	registerVFS(e)
	registerSummaries(e)
	registerBytealg(e)
	registerStrings(e)
	registerMisc(e)
	registerRegexp(e)
	registerFmt(e)
	registerSched(e)
}

// deepCopy copies a value tree including what pointers point to.
func deepCopy(v value, seen map[*value]*value) value {
	switch v := v.(type) {
	case *value:
		if v == nil {
			return v
		}
		if c, ok := seen[v]; ok {
			return c
		}
		c := new(value)
		seen[v] = c
		*c = deepCopy(*v, seen)
		return c
	case structure:
		out := make(structure, len(v))
		for i := range v {
			out[i] = deepCopy(v[i], seen)
		}
		return out
	case array:
		out := make(array, len(v))
		for i := range v {
			out[i] = deepCopy(v[i], seen)
		}
		return out
	case []value:
		if v == nil {
			return v
		}
		out := make([]value, len(v))
		for i := range v {
			out[i] = deepCopy(v[i], seen)
		}
		return out
	case iface:
		return iface{v.t, deepCopy(v.v, seen)}
	}
	return v
}

func termsOf(v value) []*Term {
	switch v := v.(type) {
	case []value:
		out := make([]*Term, len(v))
		for i := range v {
			out[i] = v[i].(*Term)
		}
		return out
	case string, *SymStr:
		return strBytes(v)
	}
	panic(engineError{fmt.Sprintf("termsOf %T", v)})
}

// indexByteT returns the index of the first byte equal to c in b (forking), or -1.
func (fr *frame) indexByteT(b []*Term, c *Term) int {
	tb := fr.w.tb
	for i, x := range b {
		if fr.w.branch(tb.Cmp(OpEq, x, c)) {
			return i
		}
	}
	return -1
}

func (fr *frame) bytesEqT(a, b []*Term) *Term {
	if len(a) != len(b) {
		return FalseT
	}
	tb := fr.w.tb
	r := TrueT
	for i := range a {
		e := tb.Cmp(OpEq, a[i], b[i])
		if e.IsFalse() {
			return FalseT
		}
		r = tb.And(r, e)
	}
	return r
}

// indexT: first index of sep in s, forking per position.
func (fr *frame) indexT(s, sep []*Term) int {
	n := len(sep)
	if n == 0 {
		return 0
	}
	for i := 0; i+n <= len(s); i++ {
		if fr.w.branch(fr.bytesEqT(s[i:i+n], sep)) {
			return i
		}
	}
	return -1
}

func kInt(i int) *Term { return K(64, uint64(int64(i))) }

func registerBytealg(e *Engine) {
	reg := func(name string, f intrinsicFn) { e.intrinsics[name] = f }
	reg("internal/bytealg.IndexByteString", func(fr *frame, a []value) value {
		if s, ok := a[0].(string); ok {
			if c := a[1].(*Term); c.IsConst() {
				return kInt(strings.IndexByte(s, byte(c.val)))
			}
		}
		return kInt(fr.indexByteT(strBytes(a[0]), a[1].(*Term)))
	})
	reg("internal/bytealg.IndexByte", func(fr *frame, a []value) value {
		return kInt(fr.indexByteT(termsOf(a[0]), a[1].(*Term)))
	})
	reg("internal/bytealg.LastIndexByteString", func(fr *frame, a []value) value {
		b := strBytes(a[0])
		tb := fr.w.tb
		for i := len(b) - 1; i >= 0; i-- {
			if fr.w.branch(tb.Cmp(OpEq, b[i], a[1].(*Term))) {
				return kInt(i)
			}
		}
		return kInt(-1)
	})
	reg("internal/bytealg.CountString", func(fr *frame, a []value) value {
		b := strBytes(a[0])
		tb := fr.w.tb
		cnt := K(64, 0)
		for _, x := range b {
			cnt = tb.Bin(OpAdd, cnt, tb.Ite(tb.Cmp(OpEq, x, a[1].(*Term)), K(64, 1), K(64, 0)))
		}
		return cnt
	})
	reg("internal/bytealg.Count", func(fr *frame, a []value) value {
		b := termsOf(a[0])
		tb := fr.w.tb
		cnt := K(64, 0)
		for _, x := range b {
			cnt = tb.Bin(OpAdd, cnt, tb.Ite(tb.Cmp(OpEq, x, a[1].(*Term)), K(64, 1), K(64, 0)))
		}
		return cnt
	})
	reg("internal/bytealg.Equal", func(fr *frame, a []value) value {
		return boolV(fr.bytesEqT(termsOf(a[0]), termsOf(a[1])))
	})
	reg("internal/bytealg.IndexString", func(fr *frame, a []value) value {
		if s, ok := a[0].(string); ok {
			if t, ok := a[1].(string); ok {
				return kInt(strings.Index(s, t))
			}
		}
		return kInt(fr.indexT(strBytes(a[0]), strBytes(a[1])))
	})
	reg("internal/bytealg.Index", func(fr *frame, a []value) value {
		return kInt(fr.indexT(termsOf(a[0]), termsOf(a[1])))
	})
	reg("internal/bytealg.Compare", func(fr *frame, a []value) value {
		x, y := termsOf(a[0]), termsOf(a[1])
		lt := fr.strLess(mkStr(x), mkStr(y), false)
		eq := fr.bytesEqT(x, y)
		tb := fr.w.tb
		return tb.Ite(lt, K(64, ^uint64(0)), tb.Ite(eq, K(64, 0), K(64, 1)))
	})
	reg("internal/bytealg.MakeNoZero", func(fr *frame, a []value) value {
		n := fr.concInt(a[0], "MakeNoZero")
		s := make([]value, n)
		for i := range s {
			s[i] = K(8, 0)
		}
		return s
	})
	reg("internal/stringslite.Index", func(fr *frame, a []value) value {
		if s, ok := a[0].(string); ok {
			if t, ok := a[1].(string); ok {
				return kInt(strings.Index(s, t))
			}
		}
		return kInt(fr.indexT(strBytes(a[0]), strBytes(a[1])))
	})
	reg("internal/stringslite.IndexByte", func(fr *frame, a []value) value {
		return kInt(fr.indexByteT(strBytes(a[0]), a[1].(*Term)))
	})
	reg("strings.Index", func(fr *frame, a []value) value {
		if s, ok := a[0].(string); ok {
			if t, ok := a[1].(string); ok {
				return kInt(strings.Index(s, t))
			}
		}
		return kInt(fr.indexT(strBytes(a[0]), strBytes(a[1])))
	})
	reg("strings.IndexByte", func(fr *frame, a []value) value {
		return kInt(fr.indexByteT(strBytes(a[0]), a[1].(*Term)))
	})
	reg("strings.Count", func(fr *frame, a []value) value {
		s, sep := strBytes(a[0]), strBytes(a[1])
		if len(sep) == 0 {
			// number of runes + 1
			n := 0
			for p := 0; p < len(s); {
				_, sz := fr.decodeRune(s[p:])
				p += sz
				n++
			}
			return kInt(n + 1)
		}
		if len(sep) == 1 {
			tb := fr.w.tb
			cnt := K(64, 0)
			for _, x := range s {
				cnt = tb.Bin(OpAdd, cnt, tb.Ite(tb.Cmp(OpEq, x, sep[0]), K(64, 1), K(64, 0)))
			}
			return cnt
		}
		n := 0
		for i := 0; i+len(sep) <= len(s); {
			if fr.w.branch(fr.bytesEqT(s[i:i+len(sep)], sep)) {
				n++
				i += len(sep)
			} else {
				i++
			}
		}
		return kInt(n)
	})
}

// strings.Builder is modelled as a struct whose "buf" field holds a []value of byte terms.
func registerStrings(e *Engine) {
	reg := func(name string, f intrinsicFn) { e.intrinsics[name] = f }
	bufOf := func(fr *frame, recv value) *value {
		p := recv.(*value)
		st := (*p).(structure)
		// strings.Builder{addr *Builder; buf []byte}
		return &st[1]
	}
	reg("(*strings.Builder).String", func(fr *frame, a []value) value {
		b := bufOf(fr, a[0])
		return mkStr(termsOf(*b))
	})
	reg("(*strings.Builder).Len", func(fr *frame, a []value) value {
		return kInt(len((*bufOf(fr, a[0])).([]value)))
	})
	reg("(*strings.Builder).Cap", func(fr *frame, a []value) value {
		return kInt(cap((*bufOf(fr, a[0])).([]value)))
	})
	reg("(*strings.Builder).Reset", func(fr *frame, a []value) value {
		*bufOf(fr, a[0]) = []value(nil)
		return nil
	})
	reg("(*strings.Builder).Grow", func(fr *frame, a []value) value { return nil })
	reg("(*strings.Builder).copyCheck", func(fr *frame, a []value) value { return nil })
	reg("(*strings.Builder).WriteString", func(fr *frame, a []value) value {
		b := bufOf(fr, a[0])
		buf := (*b).([]value)
		for _, t := range strBytes(a[1]) {
			buf = append(buf, t)
		}
		*b = buf
		return tuple{kInt(strLen(a[1])), iface{}}
	})
	reg("(*strings.Builder).Write", func(fr *frame, a []value) value {
		b := bufOf(fr, a[0])
		buf := (*b).([]value)
		src := a[1].([]value)
		buf = append(buf, src...)
		*b = buf
		return tuple{kInt(len(src)), iface{}}
	})
	reg("(*strings.Builder).WriteByte", func(fr *frame, a []value) value {
		b := bufOf(fr, a[0])
		*b = append((*b).([]value), a[1])
		return iface{}
	})
	reg("(*strings.Builder).WriteRune", func(fr *frame, a []value) value {
		b := bufOf(fr, a[0])
		enc := fr.encodeRune(a[1].(*Term))
		buf := (*b).([]value)
		for _, t := range enc {
			buf = append(buf, t)
		}
		*b = buf
		return tuple{kInt(len(enc)), iface{}}
	})
	reg("strings.Repeat", func(fr *frame, a []value) value {
		n := fr.concInt(a[1], "strings.Repeat count")
		if n < 0 {
			panic(targetPanic{v: "strings: negative Repeat count", site: fr.caller.site()})
		}
		if int64(strLen(a[0]))*n > 1<<22 {
			panic(targetPanic{v: "strings: Repeat output length overflow", site: fr.caller.site()})
		}
		if s, ok := a[0].(string); ok {
			return strings.Repeat(s, int(n))
		}
		var out []*Term
		for i := int64(0); i < n; i++ {
			out = append(out, strBytes(a[0])...)
		}
		return mkStr(out)
	})
	// concrete fast paths
	conc2 := func(name string, f func(a, b string) value) {
		e.intrinsics[name] = func(fr *frame, a []value) value {
			if s, ok := a[0].(string); ok {
				if t, ok := a[1].(string); ok {
					return f(s, t)
				}
			}
			return fr.w.callNoIntrinsic(fr, name, a)
		}
	}
	conc2("strings.HasPrefix", func(a, b string) value { return strings.HasPrefix(a, b) })
	conc2("strings.HasSuffix", func(a, b string) value { return strings.HasSuffix(a, b) })
	conc2("strings.Contains", func(a, b string) value { return strings.Contains(a, b) })
	conc2("strings.TrimPrefix", func(a, b string) value { return strings.TrimPrefix(a, b) })
	conc2("strings.TrimSuffix", func(a, b string) value { return strings.TrimSuffix(a, b) })
	e.intrinsics["internal/stringslite.Clone"] = func(fr *frame, a []value) value { return a[0] }
	e.intrinsics["strings.Clone"] = func(fr *frame, a []value) value { return a[0] }
	e.intrinsics["strings.ToLower"] = func(fr *frame, a []value) value {
		if s, ok := a[0].(string); ok {
			return strings.ToLower(s)
		}
		return fr.mapCase(strBytes(a[0]), false)
	}
	e.intrinsics["strings.ToUpper"] = func(fr *frame, a []value) value {
		if s, ok := a[0].(string); ok {
			return strings.ToUpper(s)
		}
		return fr.mapCase(strBytes(a[0]), true)
	}
}

// mapCase implements strings.ToLower/ToUpper on symbolic bytes: exact for
// ASCII; non-ASCII runes must be constants (otherwise the engine gives up).
func (fr *frame) mapCase(b []*Term, upper bool) value {
	tb := fr.w.tb
	var out []*Term
	for p := 0; p < len(b); {
		x := b[p]
		if x.IsConst() && x.val < 0x80 {
			c := byte(x.val)
			if upper && c >= 'a' && c <= 'z' {
				c -= 32
			} else if !upper && c >= 'A' && c <= 'Z' {
				c += 32
			}
			out = append(out, K(8, uint64(c)))
			p++
			continue
		}
		if fr.w.branch(tb.Cmp(OpULt, x, K(8, 0x80))) {
			var isC *Term
			var delta uint64
			if upper {
				isC = tb.And(tb.Cmp(OpULe, K(8, 'a'), x), tb.Cmp(OpULe, x, K(8, 'z')))
				delta = 0xE0 // -32
			} else {
				isC = tb.And(tb.Cmp(OpULe, K(8, 'A'), x), tb.Cmp(OpULe, x, K(8, 'Z')))
				delta = 32
			}
			out = append(out, tb.Ite(isC, tb.Bin(OpAdd, x, K(8, delta)), x))
			p++
			continue
		}
		r, sz := fr.decodeRune(b[p:])
		if !r.IsConst() {
			// run the real unicode.ToLower / ToUpper on the symbolic rune
			name := "ToLower"
			if upper {
				name = "ToUpper"
			}
			fn := fr.w.eng.Prog.ImportedPackage("unicode").Func(name)
			mr := fr.w.call(fr, 0, fn, []value{r}).(*Term)
			out = append(out, fr.encodeRune(mr)...)
			p += sz
			continue
		}
		var m string
		if upper {
			m = strings.ToUpper(string(rune(r.val)))
		} else {
			m = strings.ToLower(string(rune(r.val)))
		}
		if r.val == 0xFFFD && sz == 1 {
			m = "�"
		}
		out = append(out, strBytes(m)...)
		p += sz
	}
	return mkStr(out)
}

// callNoIntrinsic runs the real SSA body of the function whose intrinsic frame is fr.
func (w *Worker) callNoIntrinsic(fr *frame, name string, args []value) value {
	return w.exec(fr, args, nil)
}

func registerMisc(e *Engine) {
	reg := func(name string, f intrinsicFn) { e.intrinsics[name] = f }
	fl := func(name string, f func(float64) float64) {
		reg(name, func(fr *frame, a []value) value { return f(a[0].(float64)) })
	}
	fl("math.Ceil", math.Ceil)
	fl("math.Floor", math.Floor)
	fl("math.Trunc", math.Trunc)
	fl("math.Log", math.Log)
	fl("math.Log2", math.Log2)
	fl("math.Log10", math.Log10)
	fl("math.Sqrt", math.Sqrt)
	fl("math.Abs", math.Abs)
	fl("math.Round", math.Round)
	reg("math.Float64bits", func(fr *frame, a []value) value { return K(64, math.Float64bits(a[0].(float64))) })
	reg("math.Float64frombits", func(fr *frame, a []value) value {
		return math.Float64frombits(uint64(fr.concUint(a[0], false, "Float64frombits")))
	})
	reg("math.IsNaN", func(fr *frame, a []value) value { return math.IsNaN(a[0].(float64)) })
	reg("math.IsInf", func(fr *frame, a []value) value {
		return math.IsInf(a[0].(float64), int(fr.concInt(a[1], "IsInf")))
	})
	reg("math.Pow", func(fr *frame, a []value) value { return math.Pow(a[0].(float64), a[1].(float64)) })
	reg("math.Mod", func(fr *frame, a []value) value { return math.Mod(a[0].(float64), a[1].(float64)) })

	// strconv
	reg("strconv.Itoa", func(fr *frame, a []value) value { return fr.formatInt(a[0].(*Term), true, 0, false, false) })
	reg("strconv.FormatInt", func(fr *frame, a []value) value {
		if fr.concInt(a[1], "FormatInt base") != 10 {
			panic(engineError{"FormatInt base != 10"})
		}
		return fr.formatInt(a[0].(*Term), true, 0, false, false)
	})

	// sort.Slice: real pdqsort_func with an engine swapper
	reg("sort.Slice", func(fr *frame, a []value) value { return fr.sortSlice(a, "pdqsort_func", false) })
	reg("sort.SliceStable", func(fr *frame, a []value) value { return fr.sortSlice(a, "stable_func", true) })

	// time: environment
	reg("time.runtimeNano", func(fr *frame, a []value) value { return K(64, 1) })
	reg("time.Sleep", func(fr *frame, a []value) value { return nil })
	reg("runtime.GOROOT", func(fr *frame, a []value) value { return "/goroot" })
	reg("runtime.Gosched", func(fr *frame, a []value) value { return nil })
	reg("runtime.NumCPU", func(fr *frame, a []value) value { return K(64, 4) })
	reg("os.Getenv", func(fr *frame, a []value) value { return "" })
	reg("syscall.Getenv", func(fr *frame, a []value) value { return tuple{"", false} })
	reg("internal/reflectlite.TypeOf", func(fr *frame, a []value) value { return iface{} })
	reg("errors.Is", func(fr *frame, a []value) value {
		// errors.Is: equality, then an Is(error) bool method, then Unwrap() error chains
		// (Unwrap() []error is not modelled).
		target := a[1].(iface)
		cur := a[0].(iface)
		for depth := 0; depth < 50; depth++ {
			if cur.t == nil {
				return target.t == nil
			}
			if fr.w.branchV(boolV(equals(fr, nil, cur, target))) {
				return true
			}
			if m := fr.findMethod(cur.t, "Is"); m != nil && m.Signature.Params().Len() == 1 && m.Signature.Results().Len() == 1 {
				if fr.w.branchV(fr.w.call(fr, 0, m, []value{cur.v, target})) {
					return true
				}
			}
			m := fr.findMethod(cur.t, "Unwrap")
			if m == nil || m.Signature.Params().Len() != 0 || m.Signature.Results().Len() != 1 {
				return false
			}
			if _, isSlice := m.Signature.Results().At(0).Type().Underlying().(*types.Slice); isSlice {
				panic(engineError{"errors.Is over Unwrap() []error is not modelled"})
			}
			next, ok := fr.w.call(fr, 0, m, []value{cur.v}).(iface)
			if !ok {
				return false
			}
			cur = next
		}
		return false
	})
	reg("unicode/utf8.RuneCountInString", func(fr *frame, a []value) value {
		if s, ok := a[0].(string); ok {
			return kInt(len([]rune(s)))
		}
		b := strBytes(a[0])
		n := 0
		for p := 0; p < len(b); {
			_, sz := fr.decodeRune(b[p:])
			p += sz
			n++
		}
		return kInt(n)
	})
	reg("unicode/utf8.DecodeRuneInString", func(fr *frame, a []value) value {
		r, sz := fr.decodeRune(strBytes(a[0]))
		return tuple{r, kInt(sz)}
	})
	reg("unicode/utf8.DecodeRune", func(fr *frame, a []value) value {
		r, sz := fr.decodeRune(termsOf(a[0]))
		return tuple{r, kInt(sz)}
	})
	reg("unicode/utf8.DecodeLastRuneInString", func(fr *frame, a []value) value {
		b := strBytes(a[0])
		r, sz := fr.decodeLastRune(b)
		return tuple{r, kInt(sz)}
	})
	reg("unicode/utf8.ValidString", func(fr *frame, a []value) value {
		b := strBytes(a[0])
		for p := 0; p < len(b); {
			r, sz := fr.decodeRune(b[p:])
			if sz == 1 && r.IsConst() && r.val == 0xFFFD {
				return false
			}
			p += sz
		}
		return true
	})
	reg("unicode/utf8.RuneLen", func(fr *frame, a []value) value {
		r := a[0].(*Term)
		if r.IsConst() {
			return kInt(runeLen(rune(int32(r.val))))
		}
		// fork like encodeRune
		tb := fr.w.tb
		if fr.w.branch(tb.Cmp(OpSLt, r, K(32, 0))) {
			return kInt(-1)
		}
		if fr.w.branch(tb.Cmp(OpULt, r, K(32, 0x80))) {
			return kInt(1)
		}
		if fr.w.branch(tb.Cmp(OpULt, r, K(32, 0x800))) {
			return kInt(2)
		}
		if fr.w.branch(tb.And(tb.Cmp(OpULe, K(32, 0xD800), r), tb.Cmp(OpULe, r, K(32, 0xDFFF)))) {
			return kInt(-1)
		}
		if fr.w.branch(tb.Cmp(OpULt, r, K(32, 0x10000))) {
			return kInt(3)
		}
		if fr.w.branch(tb.Cmp(OpULe, r, K(32, 0x10FFFF))) {
			return kInt(4)
		}
		return kInt(-1)
	})
}

func runeLen(r rune) int {
	switch {
	case r < 0:
		return -1
	case r < 0x80:
		return 1
	case r < 0x800:
		return 2
	case 0xD800 <= r && r <= 0xDFFF:
		return -1
	case r < 0x10000:
		return 3
	case r <= 0x10FFFF:
		return 4
	}
	return -1
}

// decodeLastRune mirrors utf8.DecodeLastRuneInString.
func (fr *frame) decodeLastRune(b []*Term) (*Term, int) {
	tb := fr.w.tb
	end := len(b)
	if end == 0 {
		return K(32, 0xFFFD), 0
	}
	start := end - 1
	last := b[start]
	if last.IsConst() && last.val < 0x80 {
		return K(32, last.val), 1
	}
	if !last.IsConst() && fr.w.branch(tb.Cmp(OpULt, last, K(8, 0x80))) {
		return tb.Zext(last, 32), 1
	}
	lim := end - 4
	if lim < 0 {
		lim = 0
	}
	isStart := func(t *Term) bool {
		// RuneStart: b&0xC0 != 0x80
		c := tb.Not(tb.Cmp(OpEq, tb.Bin(OpAnd, t, K(8, 0xC0)), K(8, 0x80)))
		return fr.w.branch(c)
	}
	for start--; start >= lim; start-- {
		if isStart(b[start]) {
			break
		}
	}
	if start < 0 {
		start = 0
	}
	r, size := fr.decodeRune(b[start:end])
	if start+size != end {
		return K(32, 0xFFFD), 1
	}
	return r, size
}

// formatInt renders a (possibly symbolic) integer in base 10, forking on sign
// and digit count; width/zero/left give fmt-style padding.
func (fr *frame) formatInt(t *Term, signed bool, width int, zero, left bool) value {
	tb := fr.w.tb
	if t.w < 64 {
		if signed {
			t = tb.Sext(t, 64)
		} else {
			t = tb.Zext(t, 64)
		}
	}
	pad := func(neg bool, digits []*Term) value {
		n := len(digits)
		if neg {
			n++
		}
		var out []*Term
		if !left && !zero {
			for i := n; i < width; i++ {
				out = append(out, K(8, ' '))
			}
		}
		if neg {
			out = append(out, K(8, '-'))
		}
		if !left && zero {
			for i := n; i < width; i++ {
				out = append(out, K(8, '0'))
			}
		}
		out = append(out, digits...)
		if left {
			for i := n; i < width; i++ {
				out = append(out, K(8, ' '))
			}
		}
		return mkStr(out)
	}
	if t.IsConst() {
		var s string
		if signed {
			s = fmt.Sprint(t.S())
		} else {
			s = fmt.Sprint(t.val)
		}
		neg := strings.HasPrefix(s, "-")
		if neg {
			s = s[1:]
		}
		return pad(neg, strBytes(s))
	}
	neg := false
	mag := t
	if signed && fr.w.branch(tb.Cmp(OpSLt, t, K(64, 0))) {
		neg = true
		mag = tb.Neg(t) // MinInt64 stays itself as unsigned magnitude: correct
	}
	// digit count
	nd := 1
	p := uint64(10)
	for nd < 20 {
		if fr.w.branch(tb.Cmp(OpULt, mag, K(64, p))) {
			break
		}
		nd++
		if nd == 20 {
			break
		}
		p *= 10
	}
	digits := make([]*Term, nd)
	div := uint64(1)
	for i := nd - 1; i >= 0; i-- {
		q := mag
		if div > 1 {
			q = tb.Bin(OpUDiv, mag, K(64, div))
		}
		d := q
		if i > 0 {
			d = tb.Bin(OpURem, q, K(64, 10))
		}
		digits[i] = tb.Bin(OpAdd, tb.Extract(d, 0, 8), K(8, '0'))
		div *= 10
	}
	return pad(neg, digits)
}

// sortSlice implements sort.Slice by running the real sorting kernel of package
// sort over an engine-provided swap function.
func (fr *frame) sortSlice(a []value, kernel string, stable bool) value {
	x := a[0].(iface)
	sl := x.v.([]value)
	less := a[1]
	n := len(sl)
	swap := &nativeFn{name: "swapper", f: func(fr2 *frame, args []value) value {
		i := fr2.concInt(args[0], "swap index")
		j := fr2.concInt(args[1], "swap index")
		sl[i], sl[j] = sl[j], sl[i]
		return nil
	}}
	pkg := fr.w.eng.Prog.ImportedPackage("sort")
	if pkg == nil {
		panic(engineError{"package sort not loaded"})
	}
	ls := structure{less, swap}
	if stable {
		fn := pkg.Func("stable_func")
		fr.w.call(fr, 0, fn, []value{ls, kInt(n)})
		return nil
	}
	fn := pkg.Func("pdqsort_func")
	// limit := bits.Len(uint(length))
	limit := 0
	for v := n; v > 0; v >>= 1 {
		limit++
	}
	fr.w.call(fr, 0, fn, []value{ls, kInt(0), kInt(n), kInt(limit)})
	return nil
}

var _ types.Type


// Summaries of small pure callees.  They replace the real SSA body only to
// avoid forking on branches that do not influence the result (e.g. `if b > 0`
// in safemath.Add); each summary is proven equivalent to the real body by a
// lemma harness (ZZ_Lemma_*) that runs the real code with summaries disabled.
func registerSummaries(e *Engine) {
	const sm = "github.com/jotaen/safemath/safemath"
	errOverflow := func(fr *frame) value {
		pkg := fr.w.eng.Prog.ImportedPackage(sm)
		g := pkg.Var("ErrOverflow")
		return load(fr.w.eng.global(fr.w, g))
	}
	const maxInt = uint64(1<<63 - 1)
	const minInt = uint64(1<<63) + 1 // math.MinInt + 1
	e.intrinsics[sm+".Add"] = func(fr *frame, a []value) value {
		if fr.w.noSummaries {
			return fr.w.exec(fr, a, nil)
		}
		tb := fr.w.tb
		x, y := a[0].(*Term), a[1].(*Term)
		ix, iy := tb.IV(x), tb.IV(y)
		if ix.slo > math.MinInt64 && iy.slo > math.MinInt64 {
			_, ok1 := addOK(ix.slo, iy.slo)
			_, ok2 := addOK(ix.shi, iy.shi)
			lo, _ := addOK(ix.slo, iy.slo)
			if ok1 && ok2 && lo > math.MinInt64 {
				return tuple{tb.Bin(OpAdd, x, y), iface{}} // overflow impossible by interval analysis
			}
		}
		bad := tb.Or(tb.Cmp(OpSLt, x, K(64, minInt)), tb.Cmp(OpSLt, y, K(64, minInt)))
		pos := tb.Cmp(OpSLt, K(64, 0), y)
		over := tb.And(pos, tb.Cmp(OpSLt, tb.Bin(OpSub, K(64, maxInt), y), x))
		under := tb.And(tb.Not(pos), tb.Cmp(OpSLt, x, tb.Bin(OpSub, K(64, minInt), y)))
		bad = tb.Or(bad, tb.Or(over, under))
		if fr.w.branch(bad) {
			return tuple{K(64, 0), errOverflow(fr)}
		}
		return tuple{tb.Bin(OpAdd, x, y), iface{}}
	}
	e.intrinsics[sm+".Multiply"] = func(fr *frame, a []value) value {
		if fr.w.noSummaries {
			return fr.w.exec(fr, a, nil)
		}
		tb := fr.w.tb
		x, y := a[0].(*Term), a[1].(*Term)
		ix, iy := tb.IV(x), tb.IV(y)
		if ix.slo > math.MinInt64 && iy.slo > math.MinInt64 {
			okAll := true
			for _, p := range [][2]int64{{ix.slo, iy.slo}, {ix.slo, iy.shi}, {ix.shi, iy.slo}, {ix.shi, iy.shi}} {
				v, ok := mulOK(p[0], p[1])
				if !ok || v == math.MinInt64 {
					okAll = false
				}
			}
			if okAll {
				return tuple{tb.Bin(OpMul, x, y), iface{}} // overflow impossible by interval analysis
			}
		}
		abs := func(t *Term) *Term { return tb.Ite(tb.Cmp(OpSLt, t, K(64, 0)), tb.Neg(t), t) }
		bad := tb.Or(tb.Cmp(OpSLt, x, K(64, minInt)), tb.Cmp(OpSLt, y, K(64, minInt)))
		yz := tb.Cmp(OpEq, y, K(64, 0))
		div := tb.Bin(OpSDiv, K(64, maxInt), tb.Ite(yz, K(64, 1), abs(y)))
		over := tb.And(tb.Not(yz), tb.Cmp(OpSLt, div, abs(x)))
		bad = tb.Or(bad, over)
		if fr.w.branch(bad) {
			return tuple{K(64, 0), errOverflow(fr)}
		}
		return tuple{tb.Bin(OpMul, x, y), iface{}}
	}
	e.intrinsics[apiPkg+".NoSummaries"] = func(fr *frame, a []value) value {
		old := fr.w.noSummaries
		fr.w.noSummaries = true
		defer func() { fr.w.noSummaries = old }()
		fr.w.call(fr, 0, a[0], nil)
		return nil
	}
}
