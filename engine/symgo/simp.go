package symgo

import (
	"fmt"
	"math"
	"math/bits"
)

// ivl is a pair of sound intervals for a bit-vector term: [ulo,uhi] for its
// unsigned value and [slo,shi] for its signed (two's complement) value.
type ivl struct {
	ulo, uhi uint64
	slo, shi int64
}

func maxS(w uint8) int64 {
	if w >= 64 {
		return math.MaxInt64
	}
	return int64(1)<<(w-1) - 1
}
func minS(w uint8) int64 {
	if w >= 64 {
		return math.MinInt64
	}
	return -(int64(1) << (w - 1))
}

func fullIv(w uint8) ivl {
	if w == 0 {
		return ivl{0, 1, 0, 1}
	}
	return ivl{0, mask(w), minS(w), maxS(w)}
}

func (i ivl) nonNeg() bool { return i.slo >= 0 }

// tighten cross-propagates between the signed and unsigned views.
func (i ivl) tighten(w uint8) ivl {
	if w == 0 {
		return i
	}
	if i.slo >= 0 {
		if uint64(i.slo) > i.ulo {
			i.ulo = uint64(i.slo)
		}
		if uint64(i.shi) < i.uhi {
			i.uhi = uint64(i.shi)
		}
	}
	if i.uhi <= uint64(maxS(w)) {
		if int64(i.ulo) > i.slo {
			i.slo = int64(i.ulo)
		}
		if int64(i.uhi) < i.shi {
			i.shi = int64(i.uhi)
		}
	}
	if w < 64 && i.ulo > uint64(maxS(w)) {
		// all values have the sign bit set: signed = unsigned - 2^w
		lo := int64(i.ulo) - (int64(1) << w)
		hi := int64(i.uhi) - (int64(1) << w)
		if lo > i.slo {
			i.slo = lo
		}
		if hi < i.shi {
			i.shi = hi
		}
	}
	return i
}

func addOK(a, b int64) (int64, bool) {
	c := a + b
	if (c > a) == (b > 0) {
		return c, true
	}
	return 0, false
}

func mulOK(a, b int64) (int64, bool) {
	if a == 0 || b == 0 {
		return 0, true
	}
	c := a * b
	if c/b != a || (a == -1 && b == math.MinInt64) || (b == -1 && a == math.MinInt64) {
		return 0, false
	}
	return c, true
}

// IV returns the intervals of t under the refinements of the current path.
func (tb *TB) IV(t *Term) ivl {
	if t.op == OpConst {
		return ivl{t.val, t.val, sext(t.val, t.w), sext(t.val, t.w)}
	}
	if r, ok := tb.ivmemo[t]; ok {
		return r
	}
	r := tb.transfer(t)
	if u, ok := tb.refU[t]; ok {
		if u[0] > r.ulo {
			r.ulo = u[0]
		}
		if u[1] < r.uhi {
			r.uhi = u[1]
		}
	}
	if s, ok := tb.refS[t]; ok {
		if s[0] > r.slo {
			r.slo = s[0]
		}
		if s[1] < r.shi {
			r.shi = s[1]
		}
	}
	r = r.tighten(t.w)
	if r.ulo > r.uhi || r.slo > r.shi {
		// contradictory refinements (infeasible path): fall back to the full range
		r = fullIv(t.w)
	}
	tb.ivmemo[t] = r
	return r
}

func (tb *TB) transfer(t *Term) ivl {
	w := t.w
	full := fullIv(w)
	if w == 0 {
		return full
	}
	m := mask(w)
	r := full
	var a, b ivl
	if t.a != nil {
		a = tb.IV(t.a)
	}
	if t.b != nil {
		b = tb.IV(t.b)
	}
	fitS := func(lo, hi int64) {
		if lo >= minS(w) && hi <= maxS(w) {
			r.slo, r.shi = lo, hi
		}
	}
	switch t.op {
	case OpVar:
	case OpZext:
		r.ulo, r.uhi = a.ulo, a.uhi
	case OpSext:
		r.slo, r.shi = a.slo, a.shi
		if a.slo >= 0 {
			r.ulo, r.uhi = uint64(a.slo), uint64(a.shi)
		}
	case OpAdd:
		if a.uhi <= m-b.uhi {
			r.ulo, r.uhi = a.ulo+b.ulo, a.uhi+b.uhi
		} else if w < 64 && a.ulo+b.ulo > m && a.uhi+b.uhi <= 2*m+1 {
			// every sum wraps exactly once
			r.ulo, r.uhi = (a.ulo+b.ulo)&m, (a.uhi+b.uhi)&m
		}
		lo, ok1 := addOK(a.slo, b.slo)
		hi, ok2 := addOK(a.shi, b.shi)
		if ok1 && ok2 {
			fitS(lo, hi)
		}
	case OpSub:
		if a.ulo >= b.uhi {
			r.ulo, r.uhi = a.ulo-b.uhi, a.uhi-b.ulo
		}
		if b.shi != math.MinInt64 && b.slo != math.MinInt64 {
			lo, ok1 := addOK(a.slo, -b.shi)
			hi, ok2 := addOK(a.shi, -b.slo)
			if ok1 && ok2 {
				fitS(lo, hi)
			}
		}
	case OpMul:
		h, l := bits.Mul64(a.uhi, b.uhi)
		if h == 0 && l <= m {
			r.ulo, r.uhi = a.ulo*b.ulo, l
		}
		c := [4]int64{}
		ok := true
		for i, p := range [][2]int64{{a.slo, b.slo}, {a.slo, b.shi}, {a.shi, b.slo}, {a.shi, b.shi}} {
			v, o := mulOK(p[0], p[1])
			c[i] = v
			ok = ok && o
		}
		if ok {
			lo, hi := c[0], c[0]
			for _, v := range c[1:] {
				if v < lo {
					lo = v
				}
				if v > hi {
					hi = v
				}
			}
			fitS(lo, hi)
		}
	case OpNeg:
		if a.slo != math.MinInt64 && a.slo > minS(w) {
			fitS(-a.shi, -a.slo)
		}
	case OpUDiv:
		if b.ulo > 0 {
			r.ulo, r.uhi = a.ulo/b.uhi, a.uhi/b.ulo
		}
	case OpURem:
		if b.ulo > 0 {
			hi := b.uhi - 1
			if a.uhi < hi {
				hi = a.uhi
			}
			r.ulo, r.uhi = 0, hi
		}
	case OpSDiv:
		if b.slo > 0 {
			// truncation toward zero is monotone in the dividend for a positive divisor
			cands := []int64{a.slo / b.slo, a.slo / b.shi, a.shi / b.slo, a.shi / b.shi}
			lo, hi := cands[0], cands[0]
			for _, v := range cands[1:] {
				if v < lo {
					lo = v
				}
				if v > hi {
					hi = v
				}
			}
			fitS(lo, hi)
		}
	case OpSRem:
		if b.slo > 0 {
			k := b.shi - 1
			if a.slo >= 0 {
				hi := k
				if a.shi < hi {
					hi = a.shi
				}
				fitS(0, hi)
			} else {
				lo := -k
				if a.slo > lo {
					lo = a.slo
				}
				hi := k
				if a.shi < hi {
					hi = a.shi
				}
				if hi < 0 {
					hi = 0
				}
				fitS(lo, hi)
			}
		}
	case OpAnd:
		hi := a.uhi
		if b.uhi < hi {
			hi = b.uhi
		}
		r.ulo, r.uhi = 0, hi
	case OpOr, OpXor:
		h := a.uhi | b.uhi
		if h == 0 {
			r.ulo, r.uhi = 0, 0
		} else {
			r.ulo, r.uhi = 0, mask(uint8(bits.Len64(h)))
			if t.op == OpOr {
				r.ulo = a.ulo
				if b.ulo > r.ulo {
					r.ulo = b.ulo
				}
			}
		}
	case OpLShr:
		if t.b.op == OpConst {
			if t.b.val >= 64 {
				r.ulo, r.uhi = 0, 0
			} else {
				r.ulo, r.uhi = a.ulo>>t.b.val, a.uhi>>t.b.val
			}
		} else {
			r.ulo, r.uhi = 0, a.uhi
		}
	case OpAShr:
		if t.b.op == OpConst && t.b.val < 64 {
			fitS(a.slo>>t.b.val, a.shi>>t.b.val)
		}
	case OpShl:
		if t.b.op == OpConst && t.b.val < 64 {
			if bits.Len64(a.uhi)+int(t.b.val) <= int(w) {
				r.ulo, r.uhi = a.ulo<<t.b.val, a.uhi<<t.b.val
			}
		}
	case OpIte:
		c := tb.IV(t.c)
		r.ulo, r.uhi = b.ulo, b.uhi
		if c.ulo < r.ulo {
			r.ulo = c.ulo
		}
		if c.uhi > r.uhi {
			r.uhi = c.uhi
		}
		r.slo, r.shi = b.slo, b.shi
		if c.slo < r.slo {
			r.slo = c.slo
		}
		if c.shi > r.shi {
			r.shi = c.shi
		}
	case OpExtract:
		if t.val == 0 {
			if a.uhi <= m {
				r.ulo, r.uhi = a.ulo, a.uhi
			}
			if a.slo >= minS(w) && a.shi <= maxS(w) {
				r.slo, r.shi = a.slo, a.shi
			}
		}
	case OpTable:
		lo, hi := ^uint64(0), uint64(0)
		slo, shi := int64(math.MaxInt64), int64(math.MinInt64)
		n := uint64(len(t.tbl.vals))
		from, to := uint64(0), n-1
		if a.ulo > from {
			from = a.ulo
		}
		if a.uhi < to {
			to = a.uhi
		}
		for i := from; i <= to && i < n; i++ {
			v := t.tbl.vals[i]
			if v < lo {
				lo = v
			}
			if v > hi {
				hi = v
			}
			s := sext(v, w)
			if s < slo {
				slo = s
			}
			if s > shi {
				shi = s
			}
		}
		if lo <= hi {
			r.ulo, r.uhi, r.slo, r.shi = lo, hi, slo, shi
		}
	}
	return r.tighten(w)
}

func (tb *TB) fire(rule string) { tb.Rules[rule]++ }

// Refine records the bounds implied by a constraint that was added to the path condition.
func (tb *TB) Refine(c *Term) {
	changed := tb.refine(c, true)
	if changed {
		tb.ivmemo = map[*Term]ivl{}
	}
}

// SetVarRange records the value range of a variable (from the propagator's domain).
func (tb *TB) SetVarRange(v *Term, lo, hi int64) {
	if lo >= 0 {
		tb.setU(v, uint64(lo), uint64(hi))
	}
	if v.w == 64 || lo < 0 {
		tb.setS(v, lo, hi)
	}
	tb.ivmemo = map[*Term]ivl{}
}

func (tb *TB) setU(t *Term, lo, hi uint64) bool {
	if t.op == OpConst {
		return false
	}
	wch := false
	for _, wt := range tb.wideU[t] {
		wch = tb.setU(wt, lo, hi) || wch
	}
	cur, ok := tb.refU[t]
	if !ok {
		cur = [2]uint64{0, mask(t.w)}
	}
	n := cur
	if lo > n[0] {
		n[0] = lo
	}
	if hi < n[1] {
		n[1] = hi
	}
	if n != cur || !ok {
		tb.refU[t] = n
		return true
	}
	return wch
}

func (tb *TB) setS(t *Term, lo, hi int64) bool {
	if t.op == OpConst {
		return false
	}
	wch := false
	for _, wt := range tb.wideS[t] {
		wch = tb.setS(wt, lo, hi) || wch
	}
	cur, ok := tb.refS[t]
	if !ok {
		cur = [2]int64{minS(t.w), maxS(t.w)}
	}
	n := cur
	if lo > n[0] {
		n[0] = lo
	}
	if hi < n[1] {
		n[1] = hi
	}
	if n != cur || !ok {
		tb.refS[t] = n
		return true
	}
	return wch
}

func (tb *TB) refine(c *Term, pos bool) bool {
	switch c.op {
	case OpBNot:
		return tb.refine(c.a, !pos)
	case OpBAnd:
		if pos {
			x := tb.refine(c.a, true)
			y := tb.refine(c.b, true)
			return x || y
		}
	case OpBOr:
		if !pos {
			x := tb.refine(c.a, false)
			y := tb.refine(c.b, false)
			return x || y
		}
	case OpEq:
		if c.a.w == 0 {
			return false
		}
		if pos && c.b.op == OpConst {
			x := tb.setU(c.a, c.b.val, c.b.val)
			y := tb.setS(c.a, sext(c.b.val, c.b.w), sext(c.b.val, c.b.w))
			return x || y
		}
	case OpULt, OpULe:
		a, b := c.a, c.b
		strict := c.op == OpULt
		if !pos {
			// ¬(a < b) ≡ b <= a ; ¬(a <= b) ≡ b < a
			a, b = b, a
			strict = !strict
		}
		// now: a < b (strict) or a <= b
		ch := false
		if b.op == OpConst {
			hi := b.val
			if strict {
				if hi == 0 {
					return false
				}
				hi--
			}
			ch = tb.setU(a, 0, hi) || ch
		}
		if a.op == OpConst {
			lo := a.val
			if strict {
				if lo == mask(a.w) {
					return false
				}
				lo++
			}
			ch = tb.setU(b, lo, mask(b.w)) || ch
		}
		return ch
	case OpSLt, OpSLe:
		a, b := c.a, c.b
		strict := c.op == OpSLt
		if !pos {
			a, b = b, a
			strict = !strict
		}
		ch := false
		if b.op == OpConst {
			hi := sext(b.val, b.w)
			if strict {
				if hi == minS(b.w) {
					return false
				}
				hi--
			}
			ch = tb.setS(a, minS(a.w), hi) || ch
		}
		if a.op == OpConst {
			lo := sext(a.val, a.w)
			if strict {
				if lo == maxS(a.w) {
					return false
				}
				lo++
			}
			ch = tb.setS(b, lo, maxS(b.w)) || ch
		}
		return ch
	}
	return false
}

// ---- linear forms: sum(coef_i * t_i) + c over unsigned w-bit arithmetic ----

type linTerm struct {
	coef uint64
	t    *Term
}

// linearize flattens t into a linear form (modulo 2^w).
func (tb *TB) linearize(t *Term, coef uint64, out *[]linTerm, c *uint64) {
	if coef != 1 && t.op != OpConst && !tb.linFlat {
		// a sub-term with its own (path-refined) bound is kept whole: its bound is
		// usually tighter than what its expansion gives
		_, ru := tb.refU[t]
		_, rs := tb.refS[t]
		if ru || rs {
			*out = append(*out, linTerm{coef, t})
			return
		}
	}
	switch t.op {
	case OpConst:
		*c += coef * t.val
	case OpAdd:
		tb.linearize(t.a, coef, out, c)
		tb.linearize(t.b, coef, out, c)
	case OpMul:
		if t.b.op == OpConst {
			tb.linearize(t.a, coef*t.b.val, out, c)
			return
		}
		*out = append(*out, linTerm{coef, t})
	case OpShl:
		if t.b.op == OpConst && t.b.val < 63 {
			tb.linearize(t.a, coef<<t.b.val, out, c)
			return
		}
		*out = append(*out, linTerm{coef, t})
	default:
		*out = append(*out, linTerm{coef, t})
	}
}

// linBound: an upper bound of the true (unwrapped) value of the form, if it
// provably does not exceed 2^64-1.
func (tb *TB) linBound(ts []linTerm, c uint64) (uint64, bool) {
	sum := c
	for _, lt := range ts {
		h, l := bits.Mul64(lt.coef, tb.IV(lt.t).uhi)
		if h != 0 {
			return 0, false
		}
		var carry uint64
		sum, carry = bits.Add64(sum, l, 0)
		if carry != 0 {
			return 0, false
		}
	}
	return sum, true
}

// linCancel simplifies a - b when their linear forms share terms.
func (tb *TB) linCancel(a, b *Term) *Term {
	var ta, tbb []linTerm
	var ca, cb uint64
	tb.linearize(a, 1, &ta, &ca)
	tb.linearize(b, 1, &tbb, &cb)
	if len(ta)+len(tbb) > 16 {
		return nil
	}
	shared := false
	for _, x := range ta {
		for _, y := range tbb {
			if x.t == y.t {
				shared = true
			}
		}
	}
	if !shared {
		return nil
	}
	var out []linTerm
	add := func(t *Term, coef uint64) {
		for i := range out {
			if out[i].t == t {
				out[i].coef += coef
				return
			}
		}
		out = append(out, linTerm{coef, t})
	}
	for _, x := range ta {
		add(x.t, x.coef)
	}
	for _, y := range tbb {
		add(y.t, -y.coef)
	}
	var res []linTerm
	for _, x := range out {
		if x.coef != 0 {
			res = append(res, x)
		}
	}
	tb.fire("sub-linear-cancel")
	return tb.buildLin(a.w, res, ca-cb)
}

func (tb *TB) buildLin(w uint8, ts []linTerm, c uint64) *Term {
	var r *Term
	for _, lt := range ts {
		x := lt.t
		if lt.coef != 1 {
			x = tb.Bin(OpMul, x, K(w, lt.coef))
		}
		if r == nil {
			r = x
		} else {
			r = tb.Bin(OpAdd, r, x)
		}
	}
	if r == nil {
		return K(w, c)
	}
	if c&mask(w) != 0 {
		r = tb.Bin(OpAdd, r, K(w, c))
	}
	return r
}

// divRemLinear simplifies a / k or a % k (unsigned, k constant > 0) using the linear form of a.
func (tb *TB) divRemLinear(op Op, a *Term, k uint64) *Term {
	w := a.w
	if a.op != OpAdd && a.op != OpMul {
		return nil
	}
	var ts []linTerm
	var c uint64
	tb.linearize(a, 1, &ts, &c)
	if len(ts) > 12 {
		return nil
	}
	c &= mask(w)
	total, ok := tb.linBound(ts, c)
	if !ok || (w < 64 && total > mask(w)) {
		return nil // the sum may wrap
	}
	var div, rem []linTerm
	for _, lt := range ts {
		if lt.coef%k == 0 {
			div = append(div, linTerm{lt.coef / k, lt.t})
		} else {
			rem = append(rem, lt)
		}
	}
	cDiv, cRem := c/k, c%k
	if len(div) == 0 && cDiv == 0 {
		return nil
	}
	remBound, ok := tb.linBound(rem, cRem)
	if !ok {
		return nil
	}
	if op == OpURem {
		tb.fire("urem-drop-multiples")
		r := tb.buildLin(w, rem, cRem)
		return tb.Bin(OpURem, r, K(w, k))
	}
	// division: only when the remainder part is provably < k
	if remBound < k {
		tb.fire("udiv-linear")
		return tb.buildLin(w, div, cDiv)
	}
	return nil
}

// ---- constructors with simplification ----

func (tb *TB) Bin(op Op, a, b *Term) *Term {
	if a.w != b.w {
		panic(fmt.Sprintf("symgo: width mismatch in %v: %d vs %d", op, a.w, b.w))
	}
	w := a.w
	if !tb.NoSimp {
		a, b = tb.pointConst(a), tb.pointConst(b)
	}
	if a.op == OpConst && b.op == OpConst {
		if v, ok := evalBin(op, w, a.val, b.val); ok {
			return K(w, v)
		}
	}
	if !tb.NoSimp {
		switch op {
		case OpAdd:
			if a.op == OpConst {
				a, b = b, a
			}
			if b.op == OpConst && b.val == 0 {
				return a
			}
			if b.op == OpConst && a.op == OpAdd && a.b.op == OpConst {
				return tb.Bin(OpAdd, a.a, K(w, a.b.val+b.val))
			}
		case OpSub:
			if b.op == OpConst {
				if b.val == 0 {
					return a
				}
				return tb.Bin(OpAdd, a, K(w, -b.val))
			}
			if a == b {
				return K(w, 0)
			}
			if (a.op == OpAdd || a.op == OpMul || b.op == OpAdd || b.op == OpMul) && a.w == 64 {
				if r := tb.linCancel(a, b); r != nil {
					return r
				}
			}
			// x - (x / k) * k  →  x % k
			if b.op == OpMul && b.b.op == OpConst && b.a.op == OpUDiv && b.a.a == a && b.a.b.op == OpConst && b.a.b.val == b.b.val && b.b.val != 0 {
				tb.fire("sub-divmul-to-rem")
				return tb.Bin(OpURem, a, K(w, b.b.val))
			}
		case OpMul:
			if a.op == OpConst {
				a, b = b, a
			}
			if b.op == OpConst {
				if b.val == 0 {
					return K(w, 0)
				}
				if b.val == 1 {
					return a
				}
				if a.op == OpMul && a.b.op == OpConst {
					return tb.Bin(OpMul, a.a, K(w, a.b.val*b.val))
				}
				// distribute a constant factor over a sum: (x + y) * c → x*c + y*c
				// (keeps decimal accumulations Σ d_i·10^k flat instead of nested multipliers)
				if a.op == OpAdd && w >= 32 {
					var ts []linTerm
					var c uint64
					tb.linearize(a, b.val, &ts, &c)
					if len(ts) <= 32 && !(len(ts) == 1 && ts[0].t == a) {
						tb.fire("distribute-mul")
						return tb.buildLin(w, ts, c)
					}
				}
			}
		case OpUDiv, OpSDiv:
			if b.op == OpConst && b.val == 1 {
				return a
			}
			ia, ib := tb.IV(a), tb.IV(b)
			if op == OpSDiv && ia.nonNeg() && ib.nonNeg() {
				op = OpUDiv
			}
			if op == OpSDiv {
				if r := tb.narrowSDiv(op, a, b, ia, ib); r != nil {
					return r
				}
			}
			if op == OpUDiv {
				if ib.ulo > 0 && ia.uhi < ib.ulo {
					tb.fire("udiv-small")
					return K(w, 0)
				}
				if b.op == OpConst && b.val > 0 {
					if r := tb.divRemLinear(OpUDiv, a, b.val); r != nil {
						return r
					}
					// (x % m) / k with x%m unchanged etc. is left to the solver
				}
				if r := tb.narrowDiv(op, a, b, ia, ib); r != nil {
					return r
				}
			}
		case OpURem, OpSRem:
			ia, ib := tb.IV(a), tb.IV(b)
			if op == OpSRem && ia.nonNeg() && ib.nonNeg() {
				op = OpURem
			}
			if op == OpSRem {
				if r := tb.narrowSDiv(op, a, b, ia, ib); r != nil {
					return r
				}
			}
			if op == OpURem {
				if ib.ulo > 0 && ia.uhi < ib.ulo {
					tb.fire("urem-small")
					return a
				}
				if b.op == OpConst && b.val > 0 {
					if r := tb.divRemLinear(OpURem, a, b.val); r != nil {
						return r
					}
				}
				if r := tb.narrowDiv(op, a, b, ia, ib); r != nil {
					return r
				}
			}
		case OpAnd:
			if a.op == OpConst {
				a, b = b, a
			}
			if b.op == OpConst {
				if b.val == 0 {
					return K(w, 0)
				}
				if b.val == mask(w) {
					return a
				}
				if b.val&(b.val+1) == 0 && tb.IV(a).uhi <= b.val {
					return a
				}
			}
			if a == b {
				return a
			}
		case OpOr:
			if a.op == OpConst {
				a, b = b, a
			}
			if b.op == OpConst && b.val == 0 {
				return a
			}
			if a == b {
				return a
			}
		case OpXor:
			if a.op == OpConst {
				a, b = b, a
			}
			if b.op == OpConst && b.val == 0 {
				return a
			}
			if a == b {
				return K(w, 0)
			}
		case OpShl, OpLShr, OpAShr:
			if b.op == OpConst && b.val == 0 {
				return a
			}
			if op == OpAShr && tb.IV(a).nonNeg() {
				op = OpLShr
			}
			if op == OpLShr && b.op == OpConst && b.val < 64 && (tb.IV(a).uhi>>b.val) == 0 {
				return K(w, 0)
			}
		}
	}
	switch op {
	case OpAdd, OpMul, OpAnd, OpOr, OpXor:
		if a.op == OpConst && b.op != OpConst {
			a, b = b, a
		}
	}
	if !tb.NoSimp && tb.Heavy != nil && w >= 16 {
		switch op {
		case OpMul, OpUDiv, OpURem, OpSDiv, OpSRem:
			if w >= 32 || op != OpMul {
				if r := tb.Heavy(op, a, b); r != nil {
					return r
				}
			}
		}
	}
	return tb.mk(op, w, 0, tb.ck(a), tb.ck(b), nil, nil)
}

// pointConst replaces a term whose interval is a single value by that constant.
func (tb *TB) pointConst(t *Term) *Term {
	if t.op == OpConst || t.w == 0 {
		return t
	}
	iv := tb.IV(t)
	if iv.ulo == iv.uhi {
		tb.fire("point-const")
		return K(t.w, iv.ulo)
	}
	return t
}

// Rebuild re-applies the constructors bottom-up (after refinements made some
// sub-terms constant).
func (tb *TB) Rebuild(t *Term, memo map[*Term]*Term) *Term {
	if t.op == OpConst {
		return t
	}
	if r, ok := memo[t]; ok {
		return r
	}
	var r *Term
	switch t.op {
	case OpVar:
		r = tb.pointConst(t)
	case OpEq, OpULt, OpULe, OpSLt, OpSLe:
		r = tb.Cmp(t.op, tb.Rebuild(t.a, memo), tb.Rebuild(t.b, memo))
	case OpBAnd:
		r = tb.And(tb.Rebuild(t.a, memo), tb.Rebuild(t.b, memo))
	case OpBOr:
		r = tb.Or(tb.Rebuild(t.a, memo), tb.Rebuild(t.b, memo))
	case OpBNot:
		r = tb.Not(tb.Rebuild(t.a, memo))
	case OpIte:
		r = tb.Ite(tb.Rebuild(t.a, memo), tb.Rebuild(t.b, memo), tb.Rebuild(t.c, memo))
	case OpNot:
		r = tb.BvNot(tb.Rebuild(t.a, memo))
	case OpNeg:
		r = tb.Neg(tb.Rebuild(t.a, memo))
	case OpZext:
		r = tb.Zext(tb.Rebuild(t.a, memo), t.w)
	case OpSext:
		r = tb.Sext(tb.Rebuild(t.a, memo), t.w)
	case OpExtract:
		r = tb.Extract(tb.Rebuild(t.a, memo), uint8(t.val), t.w)
	case OpTable:
		r = tb.TableLookup(t.tbl, tb.Rebuild(t.a, memo))
	default:
		r = tb.Bin(t.op, tb.Rebuild(t.a, memo), tb.Rebuild(t.b, memo))
	}
	memo[t] = r
	return r
}

// narrowDiv performs udiv/urem in a narrower width when both operands provably fit.
func (tb *TB) narrowDiv(op Op, a, b *Term, ia, ib ivl) *Term {
	if a.w <= 16 {
		return nil
	}
	if b.op == OpConst && b.val == 0 {
		return nil
	}
	h := ia.uhi
	if ib.uhi > h {
		h = ib.uhi
	}
	var nw uint8
	switch {
	case h <= 0xffff:
		nw = 16
	case h <= 0xffffffff && a.w > 32:
		nw = 32
	default:
		return nil
	}
	tb.fire("narrow-div")
	na := tb.Extract(a, 0, nw)
	nb := tb.Extract(b, 0, nw)
	if na.op == OpConst && nb.op == OpConst {
		v, _ := evalBin(op, nw, na.val, nb.val)
		return K(a.w, v)
	}
	return tb.Zext(tb.Bin(op, na, nb), a.w)
}

// narrowSDiv performs sdiv/srem by a positive divisor in a narrower width when
// both operands provably fit as signed values (so MIN/-1 cannot occur).
func (tb *TB) narrowSDiv(op Op, a, b *Term, ia, ib ivl) *Term {
	if a.w <= 16 || ib.slo <= 0 {
		return nil
	}
	var nw uint8
	for _, k := range []uint8{16, 32} {
		if k < a.w && ia.slo > minS(k) && ia.shi <= maxS(k) && ib.shi <= maxS(k) {
			nw = k
			break
		}
	}
	if nw == 0 {
		return nil
	}
	tb.fire("narrow-sdiv")
	na := tb.Extract(a, 0, nw)
	nb := tb.Extract(b, 0, nw)
	if na.op == OpConst && nb.op == OpConst {
		v, _ := evalBin(op, nw, na.val, nb.val)
		return K(a.w, uint64(sext(v, nw)))
	}
	return tb.Sext(tb.Bin(op, na, nb), a.w)
}

func evalBin(op Op, w uint8, x, y uint64) (uint64, bool) {
	m := mask(w)
	switch op {
	case OpAdd:
		return (x + y) & m, true
	case OpSub:
		return (x - y) & m, true
	case OpMul:
		return (x * y) & m, true
	case OpUDiv:
		if y == 0 {
			return m, true
		}
		return x / y, true
	case OpURem:
		if y == 0 {
			return x, true
		}
		return x % y, true
	case OpSDiv:
		sx, sy := sext(x, w), sext(y, w)
		if y == 0 {
			if sx < 0 {
				return 1, true
			}
			return m, true
		}
		if sy == -1 {
			return uint64(-sx) & m, true
		}
		return uint64(sx/sy) & m, true
	case OpSRem:
		if y == 0 {
			return x, true
		}
		sx, sy := sext(x, w), sext(y, w)
		if sy == -1 {
			return 0, true
		}
		return uint64(sx%sy) & m, true
	case OpAnd:
		return x & y, true
	case OpOr:
		return x | y, true
	case OpXor:
		return x ^ y, true
	case OpShl:
		if y >= uint64(w) {
			return 0, true
		}
		return (x << y) & m, true
	case OpLShr:
		if y >= uint64(w) {
			return 0, true
		}
		return x >> y, true
	case OpAShr:
		sx := sext(x, w)
		if y >= uint64(w) {
			y = uint64(w) - 1
		}
		return uint64(sx>>y) & m, true
	}
	return 0, false
}

func evalCmp(op Op, w uint8, x, y uint64) bool {
	switch op {
	case OpEq:
		return x == y
	case OpULt:
		return x < y
	case OpULe:
		return x <= y
	case OpSLt:
		return sext(x, w) < sext(y, w)
	case OpSLe:
		return sext(x, w) <= sext(y, w)
	}
	panic("evalCmp")
}

// narrowWidth picks the smallest of 8/16/32 that holds both intervals (signed or unsigned view).
func narrowWidthS(w uint8, a, b ivl) uint8 {
	for _, k := range []uint8{8, 16, 32} {
		if k >= w {
			break
		}
		if a.slo >= minS(k) && a.shi <= maxS(k) && b.slo >= minS(k) && b.shi <= maxS(k) {
			return k
		}
	}
	return 0
}

func narrowWidthU(w uint8, a, b ivl) uint8 {
	for _, k := range []uint8{8, 16, 32} {
		if k >= w {
			break
		}
		if a.uhi <= mask(k) && b.uhi <= mask(k) {
			return k
		}
	}
	return 0
}

// narrowU/narrowS extract the low k bits of a term whose unsigned / signed value
// provably fits, remembering the wide original so that bounds learnt for the
// narrow copy are transferred back (see setU/setS).
func (tb *TB) narrowU(a *Term, k uint8) *Term {
	n := tb.Extract(a, 0, k)
	if n.op != OpConst && a.op != OpConst {
		for _, x := range tb.wideU[n] {
			if x == a {
				return n
			}
		}
		tb.wideU[n] = append(tb.wideU[n], a)
	}
	return n
}

func (tb *TB) narrowS(a *Term, k uint8) *Term {
	n := tb.Extract(a, 0, k)
	if n.op != OpConst && a.op != OpConst {
		for _, x := range tb.wideS[n] {
			if x == a {
				return n
			}
		}
		tb.wideS[n] = append(tb.wideS[n], a)
	}
	return n
}

// Cmp builds a comparison (OpEq, OpULt, OpULe, OpSLt, OpSLe).
func (tb *TB) Cmp(op Op, a, b *Term) *Term {
	if a.w != b.w {
		panic(fmt.Sprintf("symgo: width mismatch in cmp: %d vs %d", a.w, b.w))
	}
	if !tb.NoSimp && a.w != 0 {
		a, b = tb.pointConst(a), tb.pointConst(b)
	}
	if a.op == OpConst && b.op == OpConst {
		return KB(evalCmp(op, a.w, a.val, b.val))
	}
	if a.w == 0 {
		if op != OpEq {
			panic("bool order")
		}
		if a.op == OpConst {
			a, b = b, a
		}
		if b.op == OpConst {
			if b.val == 1 {
				return a
			}
			return tb.Not(a)
		}
		if a == b {
			return TrueT
		}
		return tb.mk(OpEq, 0, 0, a, b, nil, nil)
	}
	if !tb.NoSimp {
		if a == b {
			switch op {
			case OpEq, OpULe, OpSLe:
				return TrueT
			default:
				return FalseT
			}
		}
		ia, ib := tb.IV(a), tb.IV(b)
		// decide from intervals
		switch op {
		case OpEq:
			if ia.uhi < ib.ulo || ib.uhi < ia.ulo || ia.shi < ib.slo || ib.shi < ia.slo {
				return FalseT
			}
		case OpULt:
			if ia.uhi < ib.ulo {
				return TrueT
			}
			if ia.ulo >= ib.uhi {
				return FalseT
			}
		case OpULe:
			if ia.uhi <= ib.ulo {
				return TrueT
			}
			if ia.ulo > ib.uhi {
				return FalseT
			}
		case OpSLt:
			if ia.shi < ib.slo {
				return TrueT
			}
			if ia.slo >= ib.shi {
				return FalseT
			}
		case OpSLe:
			if ia.shi <= ib.slo {
				return TrueT
			}
			if ia.slo > ib.shi {
				return FalseT
			}
		}
		// overflow tests: (y + z) < y  /  y <= (y + z)  when the sum provably does not wrap
		if op == OpULt && a.op == OpAdd && (a.a == b || a.b == b) {
			other := a.a
			if a.a == b {
				other = a.b
			}
			if io := tb.IV(other); ib.uhi <= mask(a.w)-io.uhi {
				tb.fire("no-overflow-test")
				return FalseT
			}
		}
		if op == OpULe && b.op == OpAdd && (b.a == a || b.b == a) {
			other := b.a
			if b.a == a {
				other = b.b
			}
			if io := tb.IV(other); ia.uhi <= mask(a.w)-io.uhi {
				tb.fire("no-overflow-test")
				return TrueT
			}
		}
		// signed → unsigned when both non-negative
		if (op == OpSLt || op == OpSLe) && ia.nonNeg() && ib.nonNeg() {
			if op == OpSLt {
				op = OpULt
			} else {
				op = OpULe
			}
		}
		if op == OpEq {
			if a.op == OpConst {
				a, b = b, a
				ia, ib = ib, ia
			}
			if b.op == OpConst {
				if a.op == OpIte && a.b.op == OpConst && a.c.op == OpConst {
					e1, e2 := a.b.val == b.val, a.c.val == b.val
					switch {
					case e1 && e2:
						return TrueT
					case e1:
						return a.a
					case e2:
						return tb.Not(a.a)
					default:
						return FalseT
					}
				}
				if a.op == OpAdd && a.b.op == OpConst {
					return tb.Cmp(OpEq, a.a, K(a.w, b.val-a.b.val))
				}
			}
		}
		// narrowing: compare in the smallest width that holds both operands
		if a.w > 8 {
			switch op {
			case OpEq:
				if k := narrowWidthU(a.w, ia, ib); k != 0 {
					tb.fire("narrow-cmp")
					return tb.Cmp(OpEq, tb.narrowU(a, k), tb.narrowU(b, k))
				}
				if k := narrowWidthS(a.w, ia, ib); k != 0 {
					tb.fire("narrow-cmp")
					return tb.Cmp(OpEq, tb.narrowS(a, k), tb.narrowS(b, k))
				}
			case OpULt, OpULe:
				if k := narrowWidthU(a.w, ia, ib); k != 0 {
					tb.fire("narrow-cmp")
					return tb.Cmp(op, tb.narrowU(a, k), tb.narrowU(b, k))
				}
			case OpSLt, OpSLe:
				if k := narrowWidthS(a.w, ia, ib); k != 0 {
					tb.fire("narrow-cmp")
					return tb.Cmp(op, tb.narrowS(a, k), tb.narrowS(b, k))
				}
			}
		}
	}
	if op == OpEq && a.op == OpConst && b.op != OpConst {
		a, b = b, a
	}
	return tb.mk(op, 0, 0, tb.ck(a), tb.ck(b), nil, nil)
}

func (tb *TB) Not(a *Term) *Term {
	if a.w != 0 {
		panic("Not on bv")
	}
	if a.op == OpConst {
		return KB(a.val == 0)
	}
	if a.op == OpBNot {
		return a.a
	}
	return tb.mk(OpBNot, 0, 0, a, nil, nil, nil)
}

func (tb *TB) And(a, b *Term) *Term {
	if a.op == OpConst {
		if a.val == 0 {
			return FalseT
		}
		return b
	}
	if b.op == OpConst {
		if b.val == 0 {
			return FalseT
		}
		return a
	}
	if a == b {
		return a
	}
	return tb.mk(OpBAnd, 0, 0, a, b, nil, nil)
}

func (tb *TB) Or(a, b *Term) *Term {
	if a.op == OpConst {
		if a.val == 1 {
			return TrueT
		}
		return b
	}
	if b.op == OpConst {
		if b.val == 1 {
			return TrueT
		}
		return a
	}
	if a == b {
		return a
	}
	return tb.mk(OpBOr, 0, 0, a, b, nil, nil)
}

func (tb *TB) Ite(c, a, b *Term) *Term {
	if c.op == OpConst {
		if c.val == 1 {
			return a
		}
		return b
	}
	if a == b || (a.op == OpConst && b.op == OpConst && a.val == b.val && a.w == b.w) {
		return a
	}
	if a.w == 0 && a.op == OpConst && b.op == OpConst {
		if a.val == 1 {
			return c
		}
		return tb.Not(c)
	}
	return tb.mk(OpIte, a.w, 0, c, tb.ck(a), tb.ck(b), nil)
}

func (tb *TB) BvNot(a *Term) *Term {
	if a.op == OpConst {
		return K(a.w, ^a.val)
	}
	return tb.mk(OpNot, a.w, 0, a, nil, nil, nil)
}

func (tb *TB) Neg(a *Term) *Term {
	if a.op == OpConst {
		return K(a.w, -a.val)
	}
	if a.op == OpNeg {
		return a.a
	}
	return tb.mk(OpNeg, a.w, 0, a, nil, nil, nil)
}

func (tb *TB) Zext(a *Term, w uint8) *Term {
	if a.w == w {
		return a
	}
	if a.w > w {
		return tb.Extract(a, 0, w)
	}
	if a.op == OpConst {
		return K(w, a.val)
	}
	if a.op == OpZext {
		return tb.Zext(a.a, w)
	}
	return tb.mk(OpZext, w, 0, a, nil, nil, nil)
}

func (tb *TB) Sext(a *Term, w uint8) *Term {
	if a.w == w {
		return a
	}
	if a.w > w {
		return tb.Extract(a, 0, w)
	}
	if a.op == OpConst {
		return K(w, uint64(sext(a.val, a.w)))
	}
	if !tb.NoSimp && tb.IV(a).nonNeg() {
		return tb.Zext(a, w)
	}
	if a.op == OpSext {
		return tb.Sext(a.a, w)
	}
	return tb.mk(OpSext, w, 0, a, nil, nil, nil)
}

// Extract returns w bits of a starting at bit lo.
func (tb *TB) Extract(a *Term, lo uint8, w uint8) *Term {
	if lo == 0 && w == a.w {
		return a
	}
	if a.op == OpConst {
		return K(w, a.val>>lo)
	}
	if lo == 0 && !tb.NoSimp {
		switch a.op {
		case OpZext, OpSext:
			if a.a.w == w {
				return a.a
			}
			if a.a.w > w {
				return tb.Extract(a.a, 0, w)
			}
			if a.op == OpZext {
				return tb.Zext(a.a, w)
			}
			return tb.Sext(a.a, w)
		case OpAdd, OpSub, OpMul, OpAnd, OpOr, OpXor:
			// the low bits depend on the low bits only
			return tb.Bin(a.op, tb.Extract(a.a, 0, w), tb.Extract(a.b, 0, w))
		case OpNeg:
			return tb.Neg(tb.Extract(a.a, 0, w))
		case OpNot:
			return tb.BvNot(tb.Extract(a.a, 0, w))
		case OpIte:
			return tb.Ite(a.a, tb.Extract(a.b, 0, w), tb.Extract(a.c, 0, w))
		case OpExtract:
			return tb.Extract(a.a, uint8(a.val), w)
		case OpUDiv, OpURem:
			ia, ib := tb.IV(a.a), tb.IV(a.b)
			if ia.uhi <= mask(w) && ib.uhi <= mask(w) && !(a.b.op == OpConst && a.b.val == 0) {
				return tb.Bin(a.op, tb.Extract(a.a, 0, w), tb.Extract(a.b, 0, w))
			}
		case OpSDiv, OpSRem:
			ia, ib := tb.IV(a.a), tb.IV(a.b)
			// exclude MIN / -1 by requiring strict containment
			if ia.slo > minS(w) && ia.shi <= maxS(w) && ib.slo >= minS(w) && ib.shi <= maxS(w) && !(a.b.op == OpConst && a.b.val == 0) && tb.IV(a.b).slo > 0 {
				return tb.Bin(a.op, tb.Extract(a.a, 0, w), tb.Extract(a.b, 0, w))
			}
		}
	}
	if a.op == OpExtract {
		return tb.mk(OpExtract, w, a.val+uint64(lo), a.a, nil, nil, nil)
	}
	return tb.mk(OpExtract, w, uint64(lo), a, nil, nil, nil)
}

// TableLookup: tbl.vals[idx]; idx must be provably in range (caller checks).
func (tb *TB) TableLookup(tbl *Table, idx *Term) *Term {
	if !tb.NoSimp {
		idx = tb.pointConst(idx)
	}
	if idx.op == OpConst {
		if idx.val >= uint64(len(tbl.vals)) {
			return K(tbl.w, 0)
		}
		return K(tbl.w, tbl.vals[idx.val])
	}
	return tb.mk(OpTable, tbl.w, 0, idx, nil, nil, tbl)
}
