package symgo

import (
	"fmt"
	"go/types"
	"math"
	"reflect"
	"sort"
	"strconv"
	"strings"
	"unicode/utf8"
)

// A model of encoding/json for the value shapes klog hands to it.
//
// encoding/json is reflection-driven (reflect, sync.Map caches, sync.Pool) and
// cannot be executed by the engine.  What klog contributes to its JSON output is
// (a) the value tree and (b) the struct declarations with their field tags; this
// model interprets both: it walks the engine value along its static go/types
// type - struct fields with `json:"name,omitempty"` tags, embedded structs with
// Go's field-dominance rule, pointers, interfaces, slices, maps with string keys,
// strings (escaping as encodeState.string does, incl. SetEscapeHTML), integers,
// booleans, concrete floats - and emits the JSON TEXT as byte terms, forking on
// the escaping class of symbolic bytes.  Unmarshal is the inverse for the same
// shapes (syntax check first, then decoding into the typed target).
//
// The model is part of the trusted base.  It is validated on every run: all
// witnesses are replayed natively, where the real encoding/json produces the
// text and the harness compares what it observed.
//
// Not modelled (engine error = job incomplete, never a verdict): Marshaler /
// TextMarshaler types, []byte as base64, the `,string` option, symbolic floats,
// map keys that are not concrete strings, decoding into interface{} values.

type jsonField struct {
	name      string
	index     []int
	typ       types.Type
	omitEmpty bool
	omitZero  bool
	tagged    bool
}

func parseJSONTag(tag string) (name string, opts []string, ok bool) {
	v, ok := reflect.StructTag(tag).Lookup("json")
	if !ok {
		return "", nil, false
	}
	parts := strings.Split(v, ",")
	return parts[0], parts[1:], true
}

func validJSONTagName(s string) bool {
	if s == "" {
		return false
	}
	for _, c := range s {
		switch {
		case strings.ContainsRune("!#$%&()*+-./:;<=>?@[]^_{|}~ ", c):
		case c >= '0' && c <= '9', c >= 'a' && c <= 'z', c >= 'A' && c <= 'Z', c > 127:
		default:
			return false
		}
	}
	return true
}

// jsonFields implements encoding/json.typeFields for struct type st.
func jsonFields(st *types.Struct) []jsonField {
	type level struct {
		st    *types.Struct
		index []int
	}
	cur := []level{}
	next := []level{{st, nil}}
	visited := map[*types.Struct]bool{}
	var fields []jsonField
	for len(next) > 0 {
		cur, next = next, nil
		for _, lv := range cur {
			if visited[lv.st] {
				continue
			}
			visited[lv.st] = true
			for i := 0; i < lv.st.NumFields(); i++ {
				f := lv.st.Field(i)
				ft := f.Type()
				if f.Anonymous() {
					t := ft
					if p, ok := t.Underlying().(*types.Pointer); ok {
						t = p.Elem()
					}
					if _, isStruct := t.Underlying().(*types.Struct); !f.Exported() && !isStruct {
						continue
					}
				} else if !f.Exported() {
					continue
				}
				tagName, opts, hasTag := parseJSONTag(lv.st.Tag(i))
				if hasTag && tagName == "-" && len(opts) == 0 {
					continue
				}
				if !validJSONTagName(tagName) {
					tagName = ""
				}
				index := append(append([]int{}, lv.index...), i)
				t := ft
				if p, ok := t.Underlying().(*types.Pointer); ok && f.Anonymous() {
					t = p.Elem()
				}
				jf := jsonField{name: tagName, index: index, typ: ft, tagged: tagName != ""}
				for _, o := range opts {
					switch o {
					case "omitempty":
						jf.omitEmpty = true
					case "omitzero":
						jf.omitZero = true
					case "string":
						panic(engineError{"json model: the `,string` option is not modelled"})
					}
				}
				if sub, isStruct := t.Underlying().(*types.Struct); tagName == "" && f.Anonymous() && isStruct {
					next = append(next, level{sub, index})
					continue
				}
				if jf.name == "" {
					jf.name = f.Name()
				}
				fields = append(fields, jf)
			}
		}
	}
	// dominance: per name the shallowest field; several at that depth: the single tagged one or none
	sort.SliceStable(fields, func(i, j int) bool {
		a, b := fields[i], fields[j]
		if a.name != b.name {
			return a.name < b.name
		}
		if len(a.index) != len(b.index) {
			return len(a.index) < len(b.index)
		}
		if a.tagged != b.tagged {
			return a.tagged
		}
		return lessIndex(a.index, b.index)
	})
	var out []jsonField
	for i := 0; i < len(fields); {
		j := i + 1
		for j < len(fields) && fields[j].name == fields[i].name {
			j++
		}
		group := fields[i:j]
		if len(group) == 1 {
			out = append(out, group[0])
		} else if len(group[0].index) < len(group[1].index) || (group[0].tagged && !group[1].tagged) {
			out = append(out, group[0])
		}
		i = j
	}
	sort.Slice(out, func(i, j int) bool { return lessIndex(out[i].index, out[j].index) })
	return out
}

func lessIndex(a, b []int) bool {
	for k := 0; k < len(a) && k < len(b); k++ {
		if a[k] != b[k] {
			return a[k] < b[k]
		}
	}
	return len(a) < len(b)
}

// ---------------------------------------------------------------- encoder

type jsonEnc struct {
	fr         *frame
	escapeHTML bool
	pretty     bool
	prefix     string
	indent     string
	out        []*Term
	depth      int
}

func (e *jsonEnc) lit(s string) {
	for i := 0; i < len(s); i++ {
		e.out = append(e.out, K(8, uint64(s[i])))
	}
}

func (e *jsonEnc) newline() {
	if !e.pretty {
		return
	}
	e.lit("\n" + e.prefix + strings.Repeat(e.indent, e.depth))
}

func (e *jsonEnc) rejectMarshalers(t types.Type) {
	for _, tt := range []types.Type{t, types.NewPointer(t)} {
		for _, m := range []string{"MarshalJSON", "MarshalText"} {
			if e.fr.findMethod(tt, m) != nil {
				panic(engineError{"json model: type " + t.String() + " implements " + m + " (not modelled)"})
			}
		}
	}
}

// fieldByIndex follows an index path through embedded structs; ok=false when an
// embedded pointer on the way is nil.
func (e *jsonEnc) fieldByIndex(v structure, st *types.Struct, index []int) (value, bool) {
	var cur value = v
	curT := types.Type(st)
	for k, i := range index {
		s := cur.(structure)
		f := curT.Underlying().(*types.Struct).Field(i)
		cur, curT = s[i], f.Type()
		if k < len(index)-1 {
			if p, ok := curT.Underlying().(*types.Pointer); ok {
				pv := cur.(*value)
				if pv == nil {
					return nil, false
				}
				cur, curT = *pv, p.Elem()
			}
		}
	}
	return cur, true
}

func (e *jsonEnc) isEmpty(v value, t types.Type) bool {
	w := e.fr.w
	switch u := t.Underlying().(type) {
	case *types.Basic:
		switch {
		case u.Info()&types.IsBoolean != 0:
			return !w.branchV(v)
		case u.Info()&types.IsInteger != 0:
			x := v.(*Term)
			return w.branch(w.tb.Cmp(OpEq, x, K(x.w, 0)))
		case u.Info()&types.IsString != 0:
			return strLen(v) == 0
		case u.Info()&types.IsFloat != 0:
			switch f := v.(type) {
			case float64:
				return f == 0
			case float32:
				return f == 0
			}
		}
	case *types.Pointer:
		return v.(*value) == nil
	case *types.Interface:
		return v.(iface).t == nil
	case *types.Slice:
		return len(v.([]value)) == 0
	case *types.Array:
		return u.Len() == 0
	case *types.Map:
		return v.(*Map).length() == 0
	}
	return false
}

func (e *jsonEnc) value(v value, t types.Type) {
	fr := e.fr
	w := fr.w
	if _, isIface := t.Underlying().(*types.Interface); !isIface {
		e.rejectMarshalers(t)
	}
	switch u := t.Underlying().(type) {
	case *types.Basic:
		switch {
		case u.Info()&types.IsBoolean != 0:
			if w.branchV(v) {
				e.lit("true")
			} else {
				e.lit("false")
			}
		case u.Info()&types.IsInteger != 0:
			_, signed, _ := intInfo(t)
			e.out = append(e.out, strBytes(fr.formatInt(v.(*Term), signed, 0, false, false))...)
		case u.Info()&types.IsString != 0:
			e.str(strBytes(v))
		case u.Info()&types.IsFloat != 0:
			var f float64
			bits := 64
			switch x := v.(type) {
			case float64:
				f = x
			case float32:
				f, bits = float64(x), 32
			default:
				panic(engineError{"json model: symbolic float"})
			}
			if math.IsInf(f, 0) || math.IsNaN(f) {
				panic(engineError{"json model: unsupported float value"})
			}
			abs := math.Abs(f)
			fmtc := byte('f')
			if abs != 0 && (bits == 64 && (abs < 1e-6 || abs >= 1e21) || bits == 32 && (float32(abs) < 1e-6 || float32(abs) >= 1e21)) {
				fmtc = 'e'
			}
			b := strconv.AppendFloat(nil, f, fmtc, -1, bits)
			if fmtc == 'e' {
				if n := len(b); n >= 4 && b[n-4] == 'e' && b[n-3] == '-' && b[n-2] == '0' {
					b[n-2] = b[n-1]
					b = b[:n-1]
				}
			}
			e.lit(string(b))
		default:
			panic(engineError{"json model: unsupported basic type " + t.String()})
		}
	case *types.Pointer:
		p := v.(*value)
		if p == nil {
			e.lit("null")
			return
		}
		e.value(*p, u.Elem())
	case *types.Interface:
		it := v.(iface)
		if it.t == nil {
			e.lit("null")
			return
		}
		e.value(it.v, it.t)
	case *types.Struct:
		s := v.(structure)
		e.lit("{")
		e.depth++
		first := true
		for _, f := range jsonFields(u) {
			fv, ok := e.fieldByIndex(s, u, f.index)
			if !ok {
				continue
			}
			if f.omitEmpty && e.isEmpty(fv, f.typ) {
				continue
			}
			if f.omitZero {
				panic(engineError{"json model: omitzero is not modelled"})
			}
			if !first {
				e.lit(",")
			}
			first = false
			e.newline()
			e.str(strBytes(f.name))
			e.lit(":")
			if e.pretty {
				e.lit(" ")
			}
			e.value(fv, f.typ)
		}
		e.depth--
		if !first {
			e.newline()
		}
		e.lit("}")
	case *types.Slice:
		s := v.([]value)
		if s == nil {
			e.lit("null")
			return
		}
		if b, ok := u.Elem().Underlying().(*types.Basic); ok && b.Kind() == types.Uint8 {
			panic(engineError{"json model: []byte (base64) is not modelled"})
		}
		e.array(s, u.Elem())
	case *types.Array:
		e.array([]value(v.(array)), u.Elem())
	case *types.Map:
		m := v.(*Map)
		if m == nil {
			e.lit("null")
			return
		}
		if kb, ok := u.Key().Underlying().(*types.Basic); !ok || kb.Info()&types.IsString == 0 {
			panic(engineError{"json model: map key type " + u.Key().String()})
		}
		type kv struct {
			k string
			v value
		}
		var kvs []kv
		for _, en := range m.entries {
			if en.deleted {
				continue
			}
			k, ok := en.k.(string)
			if !ok {
				panic(engineError{"json model: symbolic map key"})
			}
			kvs = append(kvs, kv{k, en.v})
		}
		sort.Slice(kvs, func(i, j int) bool { return kvs[i].k < kvs[j].k })
		e.lit("{")
		e.depth++
		for i, x := range kvs {
			if i > 0 {
				e.lit(",")
			}
			e.newline()
			e.str(strBytes(x.k))
			e.lit(":")
			if e.pretty {
				e.lit(" ")
			}
			e.value(x.v, u.Elem())
		}
		e.depth--
		if len(kvs) > 0 {
			e.newline()
		}
		e.lit("}")
	default:
		panic(engineError{"json model: unsupported type " + t.String()})
	}
}

func (e *jsonEnc) array(s []value, elem types.Type) {
	e.lit("[")
	e.depth++
	for i, x := range s {
		if i > 0 {
			e.lit(",")
		}
		e.newline()
		e.value(x, elem)
	}
	e.depth--
	if len(s) > 0 {
		e.newline()
	}
	e.lit("]")
}

const jsonHex = "0123456789abcdef"

// str appends the JSON string literal for the bytes b (encodeState.string).
func (e *jsonEnc) str(b []*Term) {
	w := e.fr.w
	tb := w.tb
	e.lit(`"`)
	for i := 0; i < len(b); {
		c := b[i]
		if c.IsConst() && c.val >= 0x80 || !c.IsConst() && !w.branch(tb.Cmp(OpULt, c, K(8, 0x80))) {
			r, size := e.fr.decodeRune(b[i:])
			if size == 1 {
				// invalid UTF-8 (a valid multi-byte rune has size > 1)
				e.lit(`\ufffd`)
				i++
				continue
			}
			isSep := tb.Or(tb.Cmp(OpEq, r, K(32, 0x2028)), tb.Cmp(OpEq, r, K(32, 0x2029)))
			if size == 3 && w.branch(isSep) {
				if w.branch(tb.Cmp(OpEq, r, K(32, 0x2028))) {
					e.lit(`\u2028`)
				} else {
					e.lit(`\u2029`)
				}
			} else {
				e.out = append(e.out, b[i:i+size]...)
			}
			i += size
			continue
		}
		i++
		// ASCII
		if !c.IsConst() {
			// classify a symbolic ASCII byte
			special := tb.Or(tb.Cmp(OpULt, c, K(8, 0x20)), tb.Or(tb.Cmp(OpEq, c, K(8, '"')), tb.Cmp(OpEq, c, K(8, '\\'))))
			if e.escapeHTML {
				special = tb.Or(special, tb.Or(tb.Cmp(OpEq, c, K(8, '<')), tb.Or(tb.Cmp(OpEq, c, K(8, '>')), tb.Cmp(OpEq, c, K(8, '&')))))
			}
			if !w.branch(special) {
				e.out = append(e.out, c)
				continue
			}
			// quote and backslash are escaped by a backslash and themselves: one path for both
			if w.branch(tb.Or(tb.Cmp(OpEq, c, K(8, '"')), tb.Cmp(OpEq, c, K(8, '\\')))) {
				e.lit(`\`)
				e.out = append(e.out, c)
				continue
			}
			c = K(8, uint64(w.concretize(c, true, "json string escape")))
		}
		ch := byte(c.val)
		switch {
		case ch == '"' || ch == '\\':
			e.lit(`\` + string(ch))
		case ch == '\b':
			e.lit(`\b`)
		case ch == '\f':
			e.lit(`\f`)
		case ch == '\n':
			e.lit(`\n`)
		case ch == '\r':
			e.lit(`\r`)
		case ch == '\t':
			e.lit(`\t`)
		case ch < 0x20 || e.escapeHTML && (ch == '<' || ch == '>' || ch == '&'):
			e.lit(`\u00` + string(jsonHex[ch>>4]) + string(jsonHex[ch&0xF]))
		default:
			e.out = append(e.out, c)
		}
	}
	e.lit(`"`)
}

// ---------------------------------------------------------------- decoder

type jsonSyntaxErr struct{ msg string }
type jsonTypeErr struct{ msg string }

type jsonDec struct {
	fr      *frame
	b       []*Term
	p       int
	typeErr string
}

func (d *jsonDec) fail(msg string) { panic(jsonSyntaxErr{msg}) }

// is: does the byte at p equal c (forking for symbolic bytes)?
func (d *jsonDec) is(p int, c byte) bool {
	if p >= len(d.b) {
		return false
	}
	t := d.b[p]
	if t.IsConst() {
		return byte(t.val) == c
	}
	return d.fr.w.branch(d.fr.w.tb.Cmp(OpEq, t, K(8, uint64(c))))
}

func (d *jsonDec) inRange(p int, lo, hi byte) bool {
	if p >= len(d.b) {
		return false
	}
	t := d.b[p]
	if t.IsConst() {
		return byte(t.val) >= lo && byte(t.val) <= hi
	}
	tb := d.fr.w.tb
	return d.fr.w.branch(tb.And(tb.Cmp(OpULe, K(8, uint64(lo)), t), tb.Cmp(OpULe, t, K(8, uint64(hi)))))
}

func (d *jsonDec) ws() {
	for d.p < len(d.b) && (d.is(d.p, ' ') || d.is(d.p, '\n') || d.is(d.p, '\t') || d.is(d.p, '\r')) {
		d.p++
	}
}

// jsonNode is the syntax tree of a document.
type jsonNode struct {
	kind  byte // 'o' 'a' 's' 'n' 't' 'f' 'z'(null)
	str   []*Term
	num   []*Term // the literal's bytes
	keys  [][]*Term
	elems []*jsonNode
}

func (d *jsonDec) parseValue(depth int) *jsonNode {
	if depth > 10000 {
		d.fail("exceeded max depth")
	}
	d.ws()
	if d.p >= len(d.b) {
		d.fail("unexpected end of JSON input")
	}
	switch {
	case d.is(d.p, '{'):
		d.p++
		n := &jsonNode{kind: 'o'}
		d.ws()
		if d.is(d.p, '}') {
			d.p++
			return n
		}
		for {
			d.ws()
			if !d.is(d.p, '"') {
				d.fail("invalid character looking for beginning of object key string")
			}
			k := d.parseString()
			d.ws()
			if !d.is(d.p, ':') {
				d.fail("invalid character after object key")
			}
			d.p++
			v := d.parseValue(depth + 1)
			n.keys = append(n.keys, k)
			n.elems = append(n.elems, v)
			d.ws()
			if d.is(d.p, ',') {
				d.p++
				continue
			}
			if d.is(d.p, '}') {
				d.p++
				return n
			}
			d.fail("invalid character after object key:value pair")
		}
	case d.is(d.p, '['):
		d.p++
		n := &jsonNode{kind: 'a'}
		d.ws()
		if d.is(d.p, ']') {
			d.p++
			return n
		}
		for {
			n.elems = append(n.elems, d.parseValue(depth+1))
			d.ws()
			if d.is(d.p, ',') {
				d.p++
				continue
			}
			if d.is(d.p, ']') {
				d.p++
				return n
			}
			d.fail("invalid character after array element")
		}
	case d.is(d.p, '"'):
		return &jsonNode{kind: 's', str: d.parseString()}
	case d.is(d.p, 't'):
		d.word("true")
		return &jsonNode{kind: 't'}
	case d.is(d.p, 'f'):
		d.word("false")
		return &jsonNode{kind: 'f'}
	case d.is(d.p, 'n'):
		d.word("null")
		return &jsonNode{kind: 'z'}
	case d.is(d.p, '-') || d.inRange(d.p, '0', '9'):
		start := d.p
		if d.is(d.p, '-') {
			d.p++
		}
		if d.is(d.p, '0') {
			d.p++
		} else if d.inRange(d.p, '1', '9') {
			for d.inRange(d.p, '0', '9') {
				d.p++
			}
		} else {
			d.fail("invalid character in numeric literal")
		}
		if d.is(d.p, '.') {
			d.p++
			if !d.inRange(d.p, '0', '9') {
				d.fail("invalid character after decimal point in numeric literal")
			}
			for d.inRange(d.p, '0', '9') {
				d.p++
			}
		}
		if d.is(d.p, 'e') || d.is(d.p, 'E') {
			d.p++
			if d.is(d.p, '+') || d.is(d.p, '-') {
				d.p++
			}
			if !d.inRange(d.p, '0', '9') {
				d.fail("invalid character in exponent of numeric literal")
			}
			for d.inRange(d.p, '0', '9') {
				d.p++
			}
		}
		return &jsonNode{kind: 'n', num: d.b[start:d.p]}
	}
	d.fail("invalid character looking for beginning of value")
	return nil
}

func (d *jsonDec) word(s string) {
	for i := 0; i < len(s); i++ {
		if !d.is(d.p, s[i]) {
			d.fail("invalid character in literal " + s)
		}
		d.p++
	}
}

func (d *jsonDec) hex4(p int) (int, bool) {
	v := 0
	for i := 0; i < 4; i++ {
		if p+i >= len(d.b) {
			return 0, false
		}
		t := d.b[p+i]
		if !t.IsConst() {
			t = K(8, uint64(d.fr.w.concretize(t, true, "json \\u escape digit")))
		}
		c := byte(t.val)
		switch {
		case c >= '0' && c <= '9':
			v = v*16 + int(c-'0')
		case c >= 'a' && c <= 'f':
			v = v*16 + int(c-'a') + 10
		case c >= 'A' && c <= 'F':
			v = v*16 + int(c-'A') + 10
		default:
			return 0, false
		}
	}
	return v, true
}

// parseString parses the string literal at p and returns its unescaped bytes
// (invalid UTF-8 replaced by U+FFFD, as encoding/json's unquote does).
func (d *jsonDec) parseString() []*Term {
	d.p++ // opening quote
	var out []*Term
	for {
		if d.p >= len(d.b) {
			d.fail("unexpected end of JSON input")
		}
		switch {
		case d.is(d.p, '"'):
			d.p++
			return out
		case d.is(d.p, '\\'):
			d.p++
			if d.p >= len(d.b) {
				d.fail("unexpected end of JSON input")
			}
			if c := d.b[d.p]; !c.IsConst() {
				// a symbolic escape character: quote, backslash and slash stand for themselves (one path)
				tb := d.fr.w.tb
				self := tb.Or(tb.Cmp(OpEq, c, K(8, '"')), tb.Or(tb.Cmp(OpEq, c, K(8, '\\')), tb.Cmp(OpEq, c, K(8, '/'))))
				if d.fr.w.branch(self) {
					out = append(out, c)
					d.p++
					continue
				}
			}
			simple := map[byte]byte{'"': '"', '\\': '\\', '/': '/', 'b': '\b', 'f': '\f', 'n': '\n', 'r': '\r', 't': '\t'}
			done := false
			for _, k := range []byte{'"', '\\', '/', 'b', 'f', 'n', 'r', 't'} {
				if d.is(d.p, k) {
					out = append(out, K(8, uint64(simple[k])))
					d.p++
					done = true
					break
				}
			}
			if done {
				continue
			}
			if !d.is(d.p, 'u') {
				d.fail("invalid character in string escape code")
			}
			r, ok := d.hex4(d.p + 1)
			if !ok {
				d.fail("invalid character in \\u hexadecimal character escape")
			}
			d.p += 5
			rr := rune(r)
			if rr >= 0xD800 && rr < 0xE000 { // surrogate
				dec := rune(utf8.RuneError)
				if rr < 0xDC00 && d.is(d.p, '\\') && d.is(d.p+1, 'u') {
					if r2, ok2 := d.hex4(d.p + 2); ok2 && r2 >= 0xDC00 && r2 < 0xE000 {
						dec = (rr-0xD800)<<10 | (rune(r2) - 0xDC00) + 0x10000
						d.p += 6
					}
				}
				rr = dec
			}
			out = append(out, strBytes(string(rr))...)
		case d.inRange(d.p, 0, 0x1F):
			d.fail("invalid character in string literal")
		default:
			c := d.b[d.p]
			if c.IsConst() && c.val < 0x80 || !c.IsConst() && d.fr.w.branch(d.fr.w.tb.Cmp(OpULt, c, K(8, 0x80))) {
				out = append(out, c)
				d.p++
				continue
			}
			// multi-byte: must not run over the closing quote (a quote is never a continuation byte)
			_, size := d.fr.decodeRune(d.b[d.p:])
			if size == 1 {
				out = append(out, strBytes("\uFFFD")...)
			} else {
				out = append(out, d.b[d.p:d.p+size]...)
			}
			d.p += size
		}
	}
}

func (d *jsonDec) addTypeErr(what string, t types.Type) {
	if d.typeErr == "" {
		d.typeErr = "json: cannot unmarshal " + what + " into Go value of type " + t.String()
	}
}

func nodeKindName(n *jsonNode) string {
	switch n.kind {
	case 'o':
		return "object"
	case 'a':
		return "array"
	case 's':
		return "string"
	case 'n':
		return "number"
	case 't', 'f':
		return "bool"
	}
	return "null"
}

// foldEq: ASCII case-insensitive equality of a decoded key and a field name
// (encoding/json's fallback match; non-ASCII folding is not modelled).
func (d *jsonDec) keyIs(key []*Term, name string, fold bool) bool {
	if len(key) != len(name) {
		return false
	}
	w := d.fr.w
	tb := w.tb
	cond := TrueT
	for i := range key {
		c := name[i]
		var eq *Term
		k := key[i]
		alt := c
		if fold {
			switch {
			case c >= 'a' && c <= 'z':
				alt = c - 32
			case c >= 'A' && c <= 'Z':
				alt = c + 32
			}
		}
		eq = tb.Cmp(OpEq, k, K(8, uint64(c)))
		if alt != c {
			eq = tb.Or(eq, tb.Cmp(OpEq, k, K(8, uint64(alt))))
		}
		if eq.IsFalse() {
			return false
		}
		cond = tb.And(cond, eq)
	}
	return w.branch(cond)
}

// assign decodes node n into *dst of type t (decodeState.value).
func (d *jsonDec) assign(n *jsonNode, dst *value, t types.Type) {
	fr := d.fr
	for _, tt := range []types.Type{t, types.NewPointer(t)} {
		for _, m := range []string{"UnmarshalJSON", "UnmarshalText"} {
			if _, isIface := t.Underlying().(*types.Interface); !isIface && fr.findMethod(tt, m) != nil {
				panic(engineError{"json model: type " + t.String() + " implements " + m + " (not modelled)"})
			}
		}
	}
	switch u := t.Underlying().(type) {
	case *types.Pointer:
		if n.kind == 'z' {
			store(dst, (*value)(nil))
			return
		}
		p, _ := (*dst).(*value)
		if p == nil {
			p = new(value)
			*p = zero(u.Elem())
			store(dst, p)
		}
		d.assign(n, p, u.Elem())
	case *types.Struct:
		if n.kind == 'z' {
			return
		}
		if n.kind != 'o' {
			d.addTypeErr(nodeKindName(n), t)
			return
		}
		fields := jsonFields(u)
		for ki, key := range n.keys {
			var hit *jsonField
			for i := range fields {
				if d.keyIs(key, fields[i].name, false) {
					hit = &fields[i]
					break
				}
			}
			if hit == nil {
				for i := range fields {
					if d.keyIs(key, fields[i].name, true) {
						hit = &fields[i]
						break
					}
				}
			}
			if hit == nil {
				continue
			}
			// walk to the field, allocating embedded pointers
			cur := dst
			curT := t
			for k, i := range hit.index {
				s := (*cur).(structure)
				f := curT.Underlying().(*types.Struct).Field(i)
				cur, curT = &s[i], f.Type()
				if k < len(hit.index)-1 {
					if p, ok := curT.Underlying().(*types.Pointer); ok {
						pv, _ := (*cur).(*value)
						if pv == nil {
							pv = new(value)
							*pv = zero(p.Elem())
							*cur = pv
						}
						cur, curT = pv, p.Elem()
					}
				}
			}
			d.assign(n.elems[ki], cur, curT)
		}
	case *types.Slice:
		if n.kind == 'z' {
			store(dst, []value(nil))
			return
		}
		if n.kind != 'a' {
			d.addTypeErr(nodeKindName(n), t)
			return
		}
		out := make([]value, len(n.elems))
		for i, el := range n.elems {
			out[i] = zero(u.Elem())
			d.assign(el, &out[i], u.Elem())
		}
		*dst = out
	case *types.Basic:
		if n.kind == 'z' {
			return
		}
		switch {
		case u.Info()&types.IsString != 0:
			if n.kind != 's' {
				d.addTypeErr(nodeKindName(n), t)
				return
			}
			*dst = mkStr(n.str)
		case u.Info()&types.IsBoolean != 0:
			if n.kind != 't' && n.kind != 'f' {
				d.addTypeErr(nodeKindName(n), t)
				return
			}
			*dst = n.kind == 't'
		case u.Info()&types.IsInteger != 0:
			if n.kind != 'n' {
				d.addTypeErr(nodeKindName(n), t)
				return
			}
			wd, signed, _ := intInfo(t)
			tb := fr.w.tb
			acc := K(64, 0)
			neg := false
			for i, c := range n.num {
				if c.IsConst() && c.val == '-' && i == 0 {
					neg = true
					continue
				}
				if c.IsConst() && (c.val < '0' || c.val > '9') {
					d.addTypeErr("number "+describe(mkStr(n.num)), t)
					return
				}
				if len(n.num) > 18 {
					panic(engineError{"json model: integer literal of more than 18 digits"})
				}
				dg := tb.Bin(OpSub, tb.Zext(c, 64), K(64, '0'))
				acc = tb.Bin(OpAdd, tb.Bin(OpMul, acc, K(64, 10)), dg)
			}
			if neg {
				if !signed {
					d.addTypeErr("number", t)
					return
				}
				acc = tb.Bin(OpSub, K(64, 0), acc)
			}
			if wd < 64 {
				panic(engineError{"json model: decoding into integers narrower than 64 bit is not modelled"})
			}
			*dst = acc
		default:
			panic(engineError{"json model: decoding into " + t.String()})
		}
	default:
		panic(engineError{"json model: decoding into " + t.String()})
	}
}

func registerJSON(e *Engine) {
	reg := func(name string, f intrinsicFn) { e.intrinsics[name] = f }
	reg("(*encoding/json.Encoder).Encode", func(fr *frame, a []value) value {
		fr.w.encoded = append(fr.w.encoded, a[1])
		encS := (*a[0].(*value)).(structure)
		// Encoder{w io.Writer; err error; escapeHTML bool; indentBuf []byte; indentPrefix, indentValue string}
		if len(encS) != 6 {
			panic(engineError{fmt.Sprintf("json model: unexpected layout of json.Encoder (%d fields)", len(encS))})
		}
		if errv, ok := encS[1].(iface); ok && errv.t != nil {
			return errv
		}
		je := &jsonEnc{fr: fr, escapeHTML: fr.w.branchV(encS[2])}
		prefix, ok1 := encS[4].(string)
		indent, ok2 := encS[5].(string)
		if !ok1 || !ok2 {
			panic(engineError{"json model: symbolic indentation"})
		}
		je.prefix, je.indent, je.pretty = prefix, indent, prefix != "" || indent != ""
		it := a[1].(iface)
		if it.t == nil {
			je.lit("null")
		} else {
			je.value(it.v, it.t)
		}
		je.lit("\n")
		if wr, ok := encS[0].(iface); ok && wr.t != nil {
			if m := fr.findMethod(wr.t, "Write"); m != nil {
				data := make([]value, len(je.out))
				for i, t := range je.out {
					data[i] = t
				}
				res := fr.w.call(fr, 0, m, []value{wr.v, data})
				if tp, ok := res.(tuple); ok && len(tp) == 2 {
					if ev, ok := tp[1].(iface); ok && ev.t != nil {
						encS[1] = ev
						return ev
					}
				}
				return iface{}
			}
		}
		panic(engineError{"json model: Encoder without usable writer"})
	})
	reg("encoding/json.Unmarshal", func(fr *frame, a []value) (res value) {
		dst, ok := a[1].(iface)
		if !ok || dst.t == nil {
			return fr.w.eng.newError(fr, "json: Unmarshal(nil)")
		}
		pt, isPtr := dst.t.Underlying().(*types.Pointer)
		dp, _ := dst.v.(*value)
		if !isPtr || dp == nil {
			return fr.w.eng.newError(fr, "json: Unmarshal(non-pointer "+dst.t.String()+")")
		}
		d := &jsonDec{fr: fr, b: termsOf(a[0])}
		var root *jsonNode
		var synErr *jsonSyntaxErr
		func() {
			defer func() {
				if r := recover(); r != nil {
					if se, ok := r.(jsonSyntaxErr); ok {
						synErr = &se
						return
					}
					panic(r)
				}
			}()
			root = d.parseValue(0)
			d.ws()
			if d.p < len(d.b) {
				d.fail("invalid character after top-level value")
			}
		}()
		if synErr != nil {
			return fr.w.eng.newError(fr, synErr.msg)
		}
		d.assign(root, dp, pt.Elem())
		if d.typeErr != "" {
			return fr.w.eng.newError(fr, d.typeErr)
		}
		return iface{}
	})
	reg("encoding/json.Valid", func(fr *frame, a []value) (res value) {
		d := &jsonDec{fr: fr, b: termsOf(a[0])}
		ok := true
		func() {
			defer func() {
				if r := recover(); r != nil {
					if _, is := r.(jsonSyntaxErr); is {
						ok = false
						return
					}
					panic(r)
				}
			}()
			d.parseValue(0)
			d.ws()
			if d.p < len(d.b) {
				d.fail("trailing data")
			}
		}()
		return ok
	})
}
