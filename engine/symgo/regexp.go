package symgo

import (
	"fmt"
	"regexp/syntax"
	"strconv"
	"strings"
	"sync"
	"unicode"
)

// reModel stands for a *regexp.Regexp of the program under test.  The pattern
// is compiled with Go's own regexp/syntax to the same syntax.Prog the real
// package executes; the engine runs that program with a leftmost-first
// backtracking matcher over (possibly symbolic) runes.
type reModel struct {
	pattern string
	prog    *syntax.Prog
	numCap  int // 2*(subexp+1)
}

var reCache sync.Map

func compileRe(pattern string) (*reModel, error) {
	if m, ok := reCache.Load(pattern); ok {
		return m.(*reModel), nil
	}
	re, err := syntax.Parse(pattern, syntax.Perl)
	if err != nil {
		return nil, err
	}
	ncap := re.MaxCap()
	re = re.Simplify()
	prog, err := syntax.Compile(re)
	if err != nil {
		return nil, err
	}
	m := &reModel{pattern: pattern, prog: prog, numCap: 2 * (ncap + 1)}
	reCache.Store(pattern, m)
	return m, nil
}

type reMatcher struct {
	fr      *frame
	re      *reModel
	in      []*Term
	runes   map[int]*Term
	widths  map[int]int
	visited map[[2]int]bool
	cap     []int
	match   []int
}

func (m *reMatcher) step(pos int) (*Term, int) {
	if pos >= len(m.in) {
		return nil, 0
	}
	if r, ok := m.runes[pos]; ok {
		return r, m.widths[pos]
	}
	r, w := m.fr.decodeRune(m.in[pos:])
	m.runes[pos] = r
	m.widths[pos] = w
	return r, w
}

// classTerm: does rune r match instruction i?
func (m *reMatcher) classTerm(i *syntax.Inst, r *Term) *Term {
	tb := m.fr.w.tb
	switch i.Op {
	case syntax.InstRuneAny:
		return TrueT
	case syntax.InstRuneAnyNotNL:
		return tb.Not(tb.Cmp(OpEq, r, K(32, '\n')))
	}
	if r.IsConst() {
		return KB(i.MatchRune(rune(int32(r.val))))
	}
	fold := syntax.Flags(i.Arg)&syntax.FoldCase != 0
	eq := func(c rune) *Term { return tb.Cmp(OpEq, r, K(32, uint64(uint32(c)))) }
	if len(i.Rune) == 1 {
		r0 := i.Rune[0]
		res := eq(r0)
		if fold {
			for r1 := unicode.SimpleFold(r0); r1 != r0; r1 = unicode.SimpleFold(r1) {
				res = tb.Or(res, eq(r1))
			}
		}
		return res
	}
	if fold {
		panic(engineError{"regexp model: case-folded character class"})
	}
	riv := tb.IV(r)
	res := FalseT
	for j := 0; j+1 < len(i.Rune); j += 2 {
		lo, hi := uint64(uint32(i.Rune[j])), uint64(uint32(i.Rune[j+1]))
		if lo > riv.uhi {
			break
		}
		if hi < riv.ulo {
			continue
		}
		var c *Term
		if lo == hi {
			c = tb.Cmp(OpEq, r, K(32, lo))
		} else {
			c = tb.And(tb.Cmp(OpULe, K(32, lo), r), tb.Cmp(OpULe, r, K(32, hi)))
		}
		res = tb.Or(res, c)
	}
	return res
}

func (m *reMatcher) emptyOK(op syntax.EmptyOp, pos int) bool {
	tb := m.fr.w.tb
	if op&syntax.EmptyBeginText != 0 && pos != 0 {
		return false
	}
	if op&syntax.EmptyEndText != 0 && pos != len(m.in) {
		return false
	}
	if op&syntax.EmptyBeginLine != 0 && pos != 0 {
		if !m.fr.w.branch(tb.Cmp(OpEq, m.in[pos-1], K(8, '\n'))) {
			return false
		}
	}
	if op&syntax.EmptyEndLine != 0 && pos != len(m.in) {
		if !m.fr.w.branch(tb.Cmp(OpEq, m.in[pos], K(8, '\n'))) {
			return false
		}
	}
	if op&(syntax.EmptyWordBoundary|syntax.EmptyNoWordBoundary) != 0 {
		panic(engineError{"regexp model: \\b not modelled"})
	}
	return true
}

func (m *reMatcher) run(pc, pos int) bool {
	for {
		k := [2]int{pc, pos}
		if m.visited[k] {
			return false
		}
		m.visited[k] = true
		inst := &m.re.prog.Inst[pc]
		switch inst.Op {
		case syntax.InstFail:
			return false
		case syntax.InstAlt, syntax.InstAltMatch:
			if m.run(int(inst.Out), pos) {
				return true
			}
			pc = int(inst.Arg)
		case syntax.InstCapture:
			if int(inst.Arg) < len(m.cap) {
				old := m.cap[inst.Arg]
				m.cap[inst.Arg] = pos
				if m.run(int(inst.Out), pos) {
					return true
				}
				m.cap[inst.Arg] = old
				return false
			}
			pc = int(inst.Out)
		case syntax.InstEmptyWidth:
			if !m.emptyOK(syntax.EmptyOp(inst.Arg), pos) {
				return false
			}
			pc = int(inst.Out)
		case syntax.InstNop:
			pc = int(inst.Out)
		case syntax.InstMatch:
			m.cap[1] = pos
			m.match = append([]int{}, m.cap...)
			return true
		case syntax.InstRune, syntax.InstRune1, syntax.InstRuneAny, syntax.InstRuneAnyNotNL:
			r, w := m.step(pos)
			if w == 0 {
				return false
			}
			if !m.fr.w.branch(m.classTerm(inst, r)) {
				return false
			}
			pos += w
			pc = int(inst.Out)
		default:
			panic(engineError{"regexp model: unknown instruction"})
		}
	}
}

// execute finds the leftmost(-first) match starting at or after pos.
// It returns nil or the capture index array.
func (re *reModel) execute(fr *frame, in []*Term, pos int) []int {
	m := &reMatcher{fr: fr, re: re, in: in, runes: map[int]*Term{}, widths: map[int]int{}}
	anchored := re.prog.Inst[re.prog.Start].Op == syntax.InstEmptyWidth &&
		syntax.EmptyOp(re.prog.Inst[re.prog.Start].Arg)&syntax.EmptyBeginText != 0
	for p := pos; p <= len(in); {
		if anchored && p != 0 {
			return nil
		}
		m.visited = map[[2]int]bool{}
		m.cap = make([]int, re.numCap)
		for i := range m.cap {
			m.cap[i] = -1
		}
		m.cap[0] = p
		if m.run(re.prog.Start, p) {
			return m.match
		}
		if p == len(in) {
			break
		}
		_, w := m.step(p)
		p += w
	}
	return nil
}

func (re *reModel) submatchStrings(in []*Term, a []int) value {
	res := make([]value, len(a)/2)
	for i := range res {
		if a[2*i] >= 0 {
			res[i] = mkStr(in[a[2*i]:a[2*i+1]])
		} else {
			res[i] = ""
		}
	}
	return res
}

// allMatches mirrors (*Regexp).allMatches.
func (re *reModel) allMatches(fr *frame, in []*Term, n int, deliver func([]int)) {
	end := len(in)
	if n < 0 {
		n = end + 1
	}
	for pos, i, prevMatchEnd := 0, 0, -1; i < n && pos <= end; {
		matches := re.execute(fr, in, pos)
		if len(matches) == 0 {
			break
		}
		accept := true
		if matches[1] == pos {
			if matches[0] == prevMatchEnd {
				accept = false
			}
			width := 0
			if pos < end {
				_, width = fr.decodeRune(in[pos:])
			}
			if width > 0 {
				pos += width
			} else {
				pos = end + 1
			}
		} else {
			pos = matches[1]
		}
		prevMatchEnd = matches[1]
		if accept {
			deliver(matches)
			i++
		}
	}
}

// replaceAll mirrors (*Regexp).replaceAll for strings.
func (re *reModel) replaceAll(fr *frame, src []*Term, repl func(dst []*Term, m []int) []*Term) value {
	lastMatchEnd := 0
	searchPos := 0
	var buf []*Term
	for searchPos <= len(src) {
		a := re.execute(fr, src, searchPos)
		if len(a) == 0 {
			break
		}
		buf = append(buf, src[lastMatchEnd:a[0]]...)
		if a[1] > lastMatchEnd || a[0] == 0 {
			buf = repl(buf, a)
		}
		lastMatchEnd = a[1]
		width := 0
		if searchPos < len(src) {
			_, width = fr.decodeRune(src[searchPos:])
		}
		if searchPos+width > a[1] {
			searchPos += width
		} else if searchPos+1 > a[1] {
			searchPos++
		} else {
			searchPos = a[1]
		}
	}
	buf = append(buf, src[lastMatchEnd:]...)
	return mkStr(buf)
}

// expand mirrors (*Regexp).expand for numeric references ($1, ${1}, $$).
func (re *reModel) expand(dst []*Term, template string, src []*Term, match []int) []*Term {
	for len(template) > 0 {
		before, after, ok := strings.Cut(template, "$")
		if !ok {
			break
		}
		dst = append(dst, strBytes(before)...)
		template = after
		if template != "" && template[0] == '$' {
			dst = append(dst, K(8, '$'))
			template = template[1:]
			continue
		}
		name, num, rest, ok := extractRef(template)
		if !ok {
			dst = append(dst, K(8, '$'))
			continue
		}
		template = rest
		if num >= 0 {
			if 2*num+1 < len(match) && match[2*num] >= 0 {
				dst = append(dst, src[match[2*num]:match[2*num+1]]...)
			}
		} else {
			_ = name
			panic(engineError{"regexp model: named group reference in template"})
		}
	}
	dst = append(dst, strBytes(template)...)
	return dst
}

// extractRef is regexp.extract.
func extractRef(str string) (name string, num int, rest string, ok bool) {
	if str == "" {
		return
	}
	brace := false
	if str[0] == '{' {
		brace = true
		str = str[1:]
	}
	i := 0
	for i < len(str) {
		c := str[i]
		if !(c == '_' || (c >= '0' && c <= '9') || (c >= 'a' && c <= 'z') || (c >= 'A' && c <= 'Z')) {
			break
		}
		i++
	}
	if i == 0 {
		return
	}
	name = str[:i]
	if brace {
		if i >= len(str) || str[i] != '}' {
			return
		}
		i++
	}
	num = 0
	for j := 0; j < len(name); j++ {
		if name[j] < '0' || '9' < name[j] || num >= 1e8 {
			num = -1
			break
		}
		num = num*10 + int(name[j]) - '0'
	}
	if name[0] == '0' && len(name) > 1 {
		num = -1
	}
	rest = str[i:]
	ok = true
	return
}

func registerRegexp(e *Engine) {
	reg := func(name string, f intrinsicFn) { e.intrinsics[name] = f }
	reg("regexp.MustCompile", func(fr *frame, a []value) value {
		pat, ok := a[0].(string)
		if !ok {
			panic(engineError{"regexp.MustCompile with symbolic pattern"})
		}
		m, err := compileRe(pat)
		if err != nil {
			panic(targetPanic{v: "regexp: Compile(" + strconv.Quote(pat) + "): " + err.Error(), site: fr.caller.site()})
		}
		return m
	})
	reg("regexp.Compile", func(fr *frame, a []value) value {
		pat, ok := a[0].(string)
		if !ok {
			panic(engineError{"regexp.Compile with symbolic pattern"})
		}
		m, err := compileRe(pat)
		if err != nil {
			panic(engineError{"regexp.Compile error path not modelled: " + err.Error()})
		}
		return tuple{m, iface{}}
	})
	reg("(*regexp.Regexp).MatchString", func(fr *frame, a []value) value {
		re := a[0].(*reModel)
		return re.execute(fr, strBytes(a[1]), 0) != nil
	})
	reg("(*regexp.Regexp).FindString", func(fr *frame, a []value) value {
		re := a[0].(*reModel)
		in := strBytes(a[1])
		m := re.execute(fr, in, 0)
		if m == nil {
			return ""
		}
		return mkStr(in[m[0]:m[1]])
	})
	reg("(*regexp.Regexp).FindStringIndex", func(fr *frame, a []value) value {
		re := a[0].(*reModel)
		m := re.execute(fr, strBytes(a[1]), 0)
		if m == nil {
			return []value(nil)
		}
		return []value{kInt(m[0]), kInt(m[1])}
	})
	reg("(*regexp.Regexp).FindStringSubmatch", func(fr *frame, a []value) value {
		re := a[0].(*reModel)
		in := strBytes(a[1])
		m := re.execute(fr, in, 0)
		if m == nil {
			return []value(nil)
		}
		return re.submatchStrings(in, m)
	})
	reg("(*regexp.Regexp).FindAllStringSubmatch", func(fr *frame, a []value) value {
		re := a[0].(*reModel)
		in := strBytes(a[1])
		n := int(fr.concInt(a[2], "FindAll n"))
		var res []value
		re.allMatches(fr, in, n, func(m []int) {
			res = append(res, re.submatchStrings(in, m))
		})
		return res
	})
	reg("(*regexp.Regexp).FindAllString", func(fr *frame, a []value) value {
		re := a[0].(*reModel)
		in := strBytes(a[1])
		n := int(fr.concInt(a[2], "FindAll n"))
		var res []value
		re.allMatches(fr, in, n, func(m []int) {
			res = append(res, mkStr(in[m[0]:m[1]]))
		})
		return res
	})
	reg("(*regexp.Regexp).ReplaceAllString", func(fr *frame, a []value) value {
		re := a[0].(*reModel)
		src := strBytes(a[1])
		repl, ok := a[2].(string)
		var replT []*Term
		if !ok {
			replT = strBytes(a[2])
			for _, t := range replT {
				if t.IsConst() && t.val == '$' {
					ok = false
				}
			}
			// a symbolic replacement may contain '$': fork on that
			for _, t := range replT {
				if !t.IsConst() {
					if fr.w.branch(fr.w.tb.Cmp(OpEq, t, K(8, '$'))) {
						panic(engineError{"bound: '$' in a symbolic regexp replacement template"})
					}
				}
			}
			hasDollar := false
			for _, t := range replT {
				if t.IsConst() && t.val == '$' {
					hasDollar = true
				}
			}
			if hasDollar {
				// split the template at constant '$' references only if the whole template structure is concrete
				return re.replaceAll(fr, src, func(dst []*Term, m []int) []*Term {
					return re.expandT(dst, replT, src, m)
				})
			}
			return re.replaceAll(fr, src, func(dst []*Term, m []int) []*Term { return append(dst, replT...) })
		}
		if !strings.Contains(repl, "$") {
			rt := strBytes(repl)
			return re.replaceAll(fr, src, func(dst []*Term, m []int) []*Term { return append(dst, rt...) })
		}
		return re.replaceAll(fr, src, func(dst []*Term, m []int) []*Term { return re.expand(dst, repl, src, m) })
	})
	reg("(*regexp.Regexp).ReplaceAllStringFunc", func(fr *frame, a []value) value {
		re := a[0].(*reModel)
		src := strBytes(a[1])
		return re.replaceAll(fr, src, func(dst []*Term, m []int) []*Term {
			r := fr.w.call(fr, 0, a[2], []value{mkStr(src[m[0]:m[1]])})
			return append(dst, strBytes(r)...)
		})
	})
	reg("(*regexp.Regexp).String", func(fr *frame, a []value) value { return a[0].(*reModel).pattern })
	reg("(*regexp.Regexp).NumSubexp", func(fr *frame, a []value) value { return kInt(a[0].(*reModel).numCap/2 - 1) })
}

// expandT expands a template given as byte terms in which every '$' is a
// constant byte followed by constant reference characters ("${1}" etc.), while
// other bytes may be symbolic.
func (re *reModel) expandT(dst []*Term, tmpl []*Term, src []*Term, match []int) []*Term {
	i := 0
	for i < len(tmpl) {
		t := tmpl[i]
		if !(t.IsConst() && t.val == '$') {
			dst = append(dst, t)
			i++
			continue
		}
		// collect the concrete tail
		j := i + 1
		var sb strings.Builder
		for j < len(tmpl) && tmpl[j].IsConst() {
			sb.WriteByte(byte(tmpl[j].val))
			j++
		}
		tail := sb.String()
		if strings.HasPrefix(tail, "$") {
			dst = append(dst, K(8, '$'))
			i += 2
			continue
		}
		_, num, rest, ok := extractRef(tail)
		if !ok {
			dst = append(dst, K(8, '$'))
			i++
			continue
		}
		if num < 0 {
			panic(engineError{"regexp model: named group reference in template"})
		}
		// a reference name that runs up to a symbolic byte could be extended by it
		if len(rest) == 0 && j < len(tmpl) && !strings.HasPrefix(tail, "{") {
			panic(engineError{"bound: regexp template reference adjacent to symbolic text"})
		}
		if 2*num+1 < len(match) && match[2*num] >= 0 {
			dst = append(dst, src[match[2*num]:match[2*num+1]]...)
		}
		i = j - len(rest)
	}
	return dst
}

var _ = fmt.Sprint
