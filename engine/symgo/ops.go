package symgo

import (
	"fmt"
	"go/constant"
	"go/token"
	"go/types"
	"math"
	"unicode/utf8"

	"golang.org/x/tools/go/ssa"
)

// constValue returns the value of the constant with the dynamic type tag
// appropriate for c.Type().
func constValue(c *ssa.Const) value {
	if c.Value == nil {
		return zero(c.Type()) // typed zero
	}
	t := c.Type()
	if tp, ok := t.(*types.TypeParam); ok {
		_ = tp
		panic(engineError{"constant of type parameter type"})
	}
	if b, ok := t.Underlying().(*types.Basic); ok {
		if w, signed, ok := intInfo(b); ok {
			if signed {
				return K(w, uint64(c.Int64()))
			}
			return K(w, c.Uint64())
		}
		switch b.Kind() {
		case types.Bool, types.UntypedBool:
			return constant.BoolVal(c.Value)
		case types.Float32:
			return float32(c.Float64())
		case types.Float64, types.UntypedFloat:
			return c.Float64()
		case types.String, types.UntypedString:
			if c.Value.Kind() == constant.String {
				return constant.StringVal(c.Value)
			}
			return string(rune(c.Int64()))
		case types.Complex64, types.Complex128:
			return c.Complex128()
		}
	}
	panic(engineError{fmt.Sprintf("constValue: %s", c)})
}

func asTerm(v value) *Term {
	switch v := v.(type) {
	case *Term:
		return v
	case bool:
		return KB(v)
	}
	panic(engineError{fmt.Sprintf("asTerm of %T", v)})
}

// boolV collapses constant boolean terms to Go bools.
func boolV(t *Term) value {
	if t.op == OpConst {
		return t.val == 1
	}
	return t
}

// concInt returns the concrete value of an integer value, or panics with an
// engine error when it is symbolic (callers that can fork use w.concretize).
func (fr *frame) concInt(v value, what string) int64 {
	t := v.(*Term)
	if t.IsConst() {
		return t.S()
	}
	return fr.w.concretize(t, true, what)
}

func (fr *frame) concUint(v value, signed bool, what string) int64 {
	t := v.(*Term)
	if t.IsConst() {
		if signed {
			return t.S()
		}
		return int64(t.val)
	}
	return fr.w.concretize(t, signed, what)
}

func fpanic(fr *frame, msg string) {
	panic(targetPanic{v: runtimeError(msg), site: fr.site()})
}

// runtimeError is the value carried by runtime panics raised by the engine
// on behalf of the Go runtime (index out of range, nil dereference, ...).
type runtimeError string

func (fr *frame) binop(op token.Token, t types.Type, x, y value) value {
	tb := fr.w.tb
	switch xv := x.(type) {
	case *Term:
		if xv.w == 0 { // symbolic bool
			return fr.boolBinop(op, asTerm(x), asTerm(y))
		}
		yv := y.(*Term)
		_, signed, _ := intInfo(t)
		switch op {
		case token.ADD:
			return tb.Bin(OpAdd, xv, yv)
		case token.SUB:
			return tb.Bin(OpSub, xv, yv)
		case token.MUL:
			return tb.Bin(OpMul, xv, yv)
		case token.QUO, token.REM:
			if yv.IsConst() {
				if yv.val == 0 {
					fpanic(fr, "integer divide by zero")
				}
			} else if fr.w.branch(tb.Cmp(OpEq, yv, K(yv.w, 0))) {
				fpanic(fr, "integer divide by zero")
			}
			var o Op
			switch {
			case op == token.QUO && signed:
				o = OpSDiv
			case op == token.QUO:
				o = OpUDiv
			case signed:
				o = OpSRem
			default:
				o = OpURem
			}
			return tb.Bin(o, xv, yv)
		case token.AND:
			return tb.Bin(OpAnd, xv, yv)
		case token.OR:
			return tb.Bin(OpOr, xv, yv)
		case token.XOR:
			return tb.Bin(OpXor, xv, yv)
		case token.AND_NOT:
			return tb.Bin(OpAnd, xv, tb.BvNot(yv))
		case token.SHL, token.SHR:
			// y may have a different width and signedness
			cnt := fr.shiftCount(xv.w, yv)
			if op == token.SHL {
				return tb.Bin(OpShl, xv, cnt)
			}
			if signed {
				return tb.Bin(OpAShr, xv, cnt)
			}
			return tb.Bin(OpLShr, xv, cnt)
		case token.EQL:
			return boolV(tb.Cmp(OpEq, xv, yv))
		case token.NEQ:
			return boolV(tb.Not(tb.Cmp(OpEq, xv, yv)))
		case token.LSS:
			if signed {
				return boolV(tb.Cmp(OpSLt, xv, yv))
			}
			return boolV(tb.Cmp(OpULt, xv, yv))
		case token.LEQ:
			if signed {
				return boolV(tb.Cmp(OpSLe, xv, yv))
			}
			return boolV(tb.Cmp(OpULe, xv, yv))
		case token.GTR:
			if signed {
				return boolV(tb.Cmp(OpSLt, yv, xv))
			}
			return boolV(tb.Cmp(OpULt, yv, xv))
		case token.GEQ:
			if signed {
				return boolV(tb.Cmp(OpSLe, yv, xv))
			}
			return boolV(tb.Cmp(OpULe, yv, xv))
		}
	case bool:
		if yt, ok := y.(*Term); ok {
			return fr.boolBinop(op, KB(xv), yt)
		}
		yv := y.(bool)
		switch op {
		case token.EQL:
			return xv == yv
		case token.NEQ:
			return xv != yv
		}
	case float64:
		yv := y.(float64)
		switch op {
		case token.ADD:
			return xv + yv
		case token.SUB:
			return xv - yv
		case token.MUL:
			return xv * yv
		case token.QUO:
			return xv / yv
		case token.EQL:
			return xv == yv
		case token.NEQ:
			return xv != yv
		case token.LSS:
			return xv < yv
		case token.LEQ:
			return xv <= yv
		case token.GTR:
			return xv > yv
		case token.GEQ:
			return xv >= yv
		}
	case float32:
		yv := y.(float32)
		switch op {
		case token.ADD:
			return xv + yv
		case token.SUB:
			return xv - yv
		case token.MUL:
			return xv * yv
		case token.QUO:
			return xv / yv
		case token.EQL:
			return xv == yv
		case token.NEQ:
			return xv != yv
		case token.LSS:
			return xv < yv
		case token.LEQ:
			return xv <= yv
		case token.GTR:
			return xv > yv
		case token.GEQ:
			return xv >= yv
		}
	case string, *SymStr:
		switch op {
		case token.ADD:
			if xs, ok := x.(string); ok {
				if ys, ok := y.(string); ok {
					return xs + ys
				}
			}
			xb, yb := strBytes(x), strBytes(y)
			b := make([]*Term, 0, len(xb)+len(yb))
			b = append(append(b, xb...), yb...)
			return mkStr(b)
		case token.EQL:
			return boolV(fr.strEq(x, y))
		case token.NEQ:
			return boolV(tb.Not(fr.strEq(x, y)))
		case token.LSS:
			return boolV(fr.strLess(x, y, false))
		case token.LEQ:
			return boolV(fr.strLess(x, y, true))
		case token.GTR:
			return boolV(fr.strLess(y, x, false))
		case token.GEQ:
			return boolV(fr.strLess(y, x, true))
		}
	}
	switch op {
	case token.EQL:
		return boolV(equals(fr, t, x, y))
	case token.NEQ:
		return boolV(tb.Not(equals(fr, t, x, y)))
	}
	panic(engineError{fmt.Sprintf("invalid binary op: %T %s %T", x, op, y)})
}

func (fr *frame) boolBinop(op token.Token, x, y *Term) value {
	tb := fr.w.tb
	switch op {
	case token.EQL:
		return boolV(tb.Cmp(OpEq, x, y))
	case token.NEQ:
		return boolV(tb.Not(tb.Cmp(OpEq, x, y)))
	case token.AND, token.LAND:
		return boolV(tb.And(x, y))
	case token.OR, token.LOR:
		return boolV(tb.Or(x, y))
	}
	panic(engineError{"bool binop " + op.String()})
}

// shiftCount converts the shift count y to width w, saturating at w.
func (fr *frame) shiftCount(w uint8, y *Term) *Term {
	tb := fr.w.tb
	if y.IsConst() {
		// negative signed counts panic in Go; SSA only has them for signed types
		v := y.val
		if v > uint64(w) {
			v = uint64(w)
		}
		return K(w, v)
	}
	if y.w <= w {
		return tb.Zext(y, w)
	}
	big := tb.Cmp(OpULt, y, K(y.w, uint64(w)))
	return tb.Ite(big, tb.Extract(y, 0, w), K(w, uint64(w)))
}

func (fr *frame) strEq(x, y value) *Term {
	if xs, ok := x.(string); ok {
		if ys, ok := y.(string); ok {
			return KB(xs == ys)
		}
	}
	if strLen(x) != strLen(y) {
		return FalseT
	}
	tb := fr.w.tb
	xb, yb := strBytes(x), strBytes(y)
	r := TrueT
	for i := range xb {
		e := tb.Cmp(OpEq, xb[i], yb[i])
		if e.IsFalse() {
			return FalseT
		}
		r = tb.And(r, e)
	}
	return r
}

// strLess: x < y (or x <= y when orEq) lexicographically by bytes.
func (fr *frame) strLess(x, y value, orEq bool) *Term {
	if xs, ok := x.(string); ok {
		if ys, ok := y.(string); ok {
			if orEq {
				return KB(xs <= ys)
			}
			return KB(xs < ys)
		}
	}
	tb := fr.w.tb
	xb, yb := strBytes(x), strBytes(y)
	n := len(xb)
	if len(yb) < n {
		n = len(yb)
	}
	// tail: all common bytes equal
	var r *Term
	if len(xb) < len(yb) {
		r = TrueT
	} else if len(xb) == len(yb) {
		r = KB(orEq)
	} else {
		r = FalseT
	}
	for i := n - 1; i >= 0; i-- {
		lt := tb.Cmp(OpULt, xb[i], yb[i])
		eq := tb.Cmp(OpEq, xb[i], yb[i])
		r = tb.Or(lt, tb.And(eq, r))
	}
	return r
}

// equals implements Go's == for type t, returning a boolean term.
func equals(fr *frame, t types.Type, x, y value) *Term {
	tb := fr.w.tb
	switch x := x.(type) {
	case *Term:
		return tb.Cmp(OpEq, x, asTerm(y))
	case bool:
		return tb.Cmp(OpEq, KB(x), asTerm(y))
	case float64:
		return KB(x == y.(float64))
	case float32:
		return KB(x == y.(float32))
	case string, *SymStr:
		return fr.strEq(x, y)
	case *value:
		return KB(x == y.(*value))
	case *Chan:
		return KB(x == y.(*Chan))
	case *Map:
		return KB(x == y.(*Map)) // only vs nil in well-typed programs
	case iface:
		yi := y.(iface)
		if x.t == nil || yi.t == nil {
			return KB(x.t == nil && yi.t == nil)
		}
		if !types.Identical(x.t, yi.t) {
			return FalseT
		}
		return equals(fr, x.t, x.v, yi.v)
	case structure:
		y := y.(structure)
		st := t.Underlying().(*types.Struct)
		r := TrueT
		for i := range x {
			if st.Field(i).Name() == "_" {
				continue
			}
			r = tb.And(r, equals(fr, st.Field(i).Type(), x[i], y[i]))
			if r.IsFalse() {
				return r
			}
		}
		return r
	case array:
		y := y.(array)
		et := t.Underlying().(*types.Array).Elem()
		r := TrueT
		for i := range x {
			r = tb.And(r, equals(fr, et, x[i], y[i]))
			if r.IsFalse() {
				return r
			}
		}
		return r
	case []value:
		// only comparable to nil
		return KB(x == nil && y.([]value) == nil)
	case *ssa.Function:
		if yf, ok := y.(*ssa.Function); ok {
			return KB(x == yf)
		}
		return KB(x == nil && y == nil)
	case *closure:
		if yf, ok := y.(*ssa.Function); ok && yf == nil {
			return FalseT
		}
		return KB(x == y)
	case *nativeFn:
		return KB(x == y)
	}
	panic(engineError{fmt.Sprintf("equals: unsupported %T", x)})
}

func (fr *frame) unop(instr *ssa.UnOp, x value) value {
	tb := fr.w.tb
	switch instr.Op {
	case token.ARROW:
		return fr.w.chanRecv(fr, x.(*Chan), instr.CommaOk)
	case token.SUB:
		switch x := x.(type) {
		case *Term:
			return tb.Neg(x)
		case float64:
			return -x
		case float32:
			return -x
		}
	case token.MUL:
		if sp, ok := x.(*symElemPtr); ok {
			return fr.loadSym(sp)
		}
		p := x.(*value)
		if p == nil {
			fpanic(fr, "invalid memory address or nil pointer dereference")
		}
		return load(p)
	case token.NOT:
		switch x := x.(type) {
		case bool:
			return !x
		case *Term:
			return boolV(tb.Not(x))
		}
	case token.XOR:
		return tb.BvNot(x.(*Term))
	}
	panic(engineError{fmt.Sprintf("invalid unary op %s %T", instr.Op, x)})
}

// ---- UTF-8 over symbolic bytes ----

// decodeRune decodes the first rune of b, forking on the encoding class.
// It returns the rune (32-bit term) and its width in bytes.
func (fr *frame) decodeRune(b []*Term) (*Term, int) {
	tb := fr.w.tb
	w := fr.w
	if len(b) == 0 {
		return K(32, utf8.RuneError), 0
	}
	allConst := true
	n := len(b)
	if n > 4 {
		n = 4
	}
	for _, t := range b[:n] {
		if !t.IsConst() {
			allConst = false
		}
	}
	if b[0].IsConst() && b[0].val < 0x80 {
		return K(32, b[0].val), 1
	}
	if allConst {
		bs := make([]byte, n)
		for i := range bs {
			bs[i] = byte(b[i].val)
		}
		r, sz := utf8.DecodeRune(bs)
		return K(32, uint64(r)), sz
	}
	in := func(t *Term, lo, hi uint64) *Term {
		return tb.And(tb.Cmp(OpULe, K(8, lo), t), tb.Cmp(OpULe, t, K(8, hi)))
	}
	z := func(t *Term) *Term { return tb.Zext(t, 32) }
	b0 := b[0]
	if w.branch(tb.Cmp(OpULt, b0, K(8, 0x80))) {
		return z(b0), 1
	}
	cont := func(t *Term) *Term { return in(t, 0x80, 0xBF) }
	low6 := func(t *Term) *Term { return tb.Bin(OpAnd, z(t), K(32, 0x3F)) }
	// 2-byte
	if len(b) >= 2 {
		if w.branch(tb.And(in(b0, 0xC2, 0xDF), cont(b[1]))) {
			r := tb.Bin(OpOr, tb.Bin(OpShl, tb.Bin(OpAnd, z(b0), K(32, 0x1F)), K(32, 6)), low6(b[1]))
			return r, 2
		}
	}
	if len(b) >= 3 {
		// second byte range depends on the lead byte
		lo2 := tb.Ite(tb.Cmp(OpEq, b0, K(8, 0xE0)), K(8, 0xA0), K(8, 0x80))
		hi2 := tb.Ite(tb.Cmp(OpEq, b0, K(8, 0xED)), K(8, 0x9F), K(8, 0xBF))
		ok2 := tb.And(tb.Cmp(OpULe, lo2, b[1]), tb.Cmp(OpULe, b[1], hi2))
		if w.branch(tb.And(tb.And(in(b0, 0xE0, 0xEF), ok2), cont(b[2]))) {
			r := tb.Bin(OpOr, tb.Bin(OpOr,
				tb.Bin(OpShl, tb.Bin(OpAnd, z(b0), K(32, 0x0F)), K(32, 12)),
				tb.Bin(OpShl, low6(b[1]), K(32, 6))), low6(b[2]))
			return r, 3
		}
	}
	if len(b) >= 4 {
		lo2 := tb.Ite(tb.Cmp(OpEq, b0, K(8, 0xF0)), K(8, 0x90), K(8, 0x80))
		hi2 := tb.Ite(tb.Cmp(OpEq, b0, K(8, 0xF4)), K(8, 0x8F), K(8, 0xBF))
		ok2 := tb.And(tb.Cmp(OpULe, lo2, b[1]), tb.Cmp(OpULe, b[1], hi2))
		if w.branch(tb.And(tb.And(tb.And(in(b0, 0xF0, 0xF4), ok2), cont(b[2])), cont(b[3]))) {
			r := tb.Bin(OpOr, tb.Bin(OpOr, tb.Bin(OpOr,
				tb.Bin(OpShl, tb.Bin(OpAnd, z(b0), K(32, 0x07)), K(32, 18)),
				tb.Bin(OpShl, low6(b[1]), K(32, 12))),
				tb.Bin(OpShl, low6(b[2]), K(32, 6))), low6(b[3]))
			return r, 4
		}
	}
	return K(32, utf8.RuneError), 1
}

// encodeRune encodes rune r (32-bit term, signed semantics as Go's rune) as UTF-8 bytes,
// forking on the width class.
func (fr *frame) encodeRune(r *Term) []*Term {
	tb := fr.w.tb
	w := fr.w
	if r.IsConst() {
		s := string(rune(int32(r.val)))
		return strBytes(s)
	}
	ex := func(t *Term) *Term { return tb.Extract(t, 0, 8) }
	or := func(c uint64, t *Term) *Term { return tb.Bin(OpOr, K(8, c), ex(t)) }
	sh := func(t *Term, n uint64) *Term { return tb.Bin(OpLShr, t, K(32, n)) }
	m := func(t *Term, mk uint64) *Term { return tb.Bin(OpAnd, t, K(32, mk)) }
	if w.branch(tb.Cmp(OpULt, r, K(32, 0x80))) {
		return []*Term{ex(r)}
	}
	if w.branch(tb.Cmp(OpULt, r, K(32, 0x800))) {
		return []*Term{or(0xC0, sh(r, 6)), or(0x80, m(r, 0x3F))}
	}
	// invalid: surrogates or > MaxRune (also negative as unsigned is > MaxRune)
	inval := tb.Or(tb.Cmp(OpULt, K(32, 0x10FFFF), r),
		tb.And(tb.Cmp(OpULe, K(32, 0xD800), r), tb.Cmp(OpULe, r, K(32, 0xDFFF))))
	if w.branch(inval) {
		return strBytes("�")
	}
	if w.branch(tb.Cmp(OpULt, r, K(32, 0x10000))) {
		return []*Term{or(0xE0, sh(r, 12)), or(0x80, m(sh(r, 6), 0x3F)), or(0x80, m(r, 0x3F))}
	}
	return []*Term{or(0xF0, sh(r, 18)), or(0x80, m(sh(r, 12), 0x3F)), or(0x80, m(sh(r, 6), 0x3F)), or(0x80, m(r, 0x3F))}
}

type strIter struct {
	b   []*Term
	pos int
}

func (it *strIter) next(fr *frame) tuple {
	if it.pos >= len(it.b) {
		return tuple{false, K(64, 0), K(32, 0)}
	}
	r, sz := fr.decodeRune(it.b[it.pos:])
	i := it.pos
	it.pos += sz
	return tuple{true, K(64, uint64(i)), r}
}

// ---- conversions ----

func (fr *frame) conv(tDst, tSrc types.Type, x value) value {
	tb := fr.w.tb
	uSrc, uDst := tSrc.Underlying(), tDst.Underlying()
	switch us := uSrc.(type) {
	case *types.Pointer:
		if b, ok := uDst.(*types.Basic); ok && b.Kind() == types.UnsafePointer {
			return x
		}
	case *types.Slice:
		// []byte / []rune -> string
		eb := us.Elem().Underlying().(*types.Basic)
		xs := x.([]value)
		switch eb.Kind() {
		case types.Byte:
			b := make([]*Term, len(xs))
			for i := range xs {
				b[i] = xs[i].(*Term)
			}
			return mkStr(b)
		case types.Rune:
			var b []*Term
			for i := range xs {
				b = append(b, fr.encodeRune(xs[i].(*Term))...)
			}
			return mkStr(b)
		}
	case *types.Basic:
		// string -> ...
		if us.Info()&types.IsString != 0 {
			switch ud := uDst.(type) {
			case *types.Slice:
				switch ud.Elem().Underlying().(*types.Basic).Kind() {
				case types.Byte:
					bs := strBytes(x)
					res := make([]value, len(bs))
					for i, t := range bs {
						res[i] = t
					}
					return res
				case types.Rune:
					bs := strBytes(x)
					res := []value{}
					for p := 0; p < len(bs); {
						r, sz := fr.decodeRune(bs[p:])
						res = append(res, r)
						p += sz
					}
					return res
				}
			case *types.Basic:
				if ud.Info()&types.IsString != 0 {
					return x
				}
			}
			break
		}
		if us.Kind() == types.UnsafePointer {
			return x
		}
		if sw, ssigned, ok := intInfo(us); ok {
			xt := x.(*Term)
			if dw, _, ok := intInfo(uDst); ok {
				switch {
				case dw == sw:
					return xt
				case dw < sw:
					return tb.Extract(xt, 0, dw)
				case ssigned:
					return tb.Sext(xt, dw)
				default:
					return tb.Zext(xt, dw)
				}
			}
			if db, ok := uDst.(*types.Basic); ok {
				if db.Info()&types.IsString != 0 {
					// integer -> string (rune)
					r := xt
					if sw < 32 {
						if ssigned {
							r = tb.Sext(xt, 32)
						} else {
							r = tb.Zext(xt, 32)
						}
					} else if sw > 32 {
						if xt.IsConst() {
							v := xt.S()
							if !ssigned {
								v = int64(xt.val)
								if xt.val > 0x10FFFF {
									v = utf8.RuneError
								}
							}
							if v < 0 || v > 0x10FFFF {
								v = utf8.RuneError
							}
							r = K(32, uint64(v))
						} else {
							// out-of-range becomes RuneError
							bad := tb.Cmp(OpULt, K(sw, 0x10FFFF), xt)
							r = tb.Ite(bad, K(32, utf8.RuneError), tb.Extract(xt, 0, 32))
						}
					}
					return mkStr(fr.encodeRune(r))
				}
				if db.Info()&types.IsFloat != 0 {
					var f float64
					if xt.IsConst() {
						if ssigned {
							f = float64(xt.S())
						} else {
							f = float64(xt.val)
						}
					} else {
						v := fr.w.concretize(xt, ssigned, "int→float conversion")
						f = float64(v)
					}
					if db.Kind() == types.Float32 {
						return float32(f)
					}
					return f
				}
			}
		}
		if us.Info()&types.IsFloat != 0 {
			var f float64
			switch x := x.(type) {
			case float64:
				f = x
			case float32:
				f = float64(x)
			}
			if dw, dsigned, ok := intInfo(uDst); ok {
				if dsigned {
					return K(dw, uint64(int64(f)))
				}
				return K(dw, uint64(f))
			}
			if db, ok := uDst.(*types.Basic); ok && db.Info()&types.IsFloat != 0 {
				if db.Kind() == types.Float32 {
					return float32(f)
				}
				return f
			}
		}
		if us.Info()&types.IsBoolean != 0 {
			return x
		}
	}
	panic(engineError{fmt.Sprintf("unsupported conversion: %s -> %s, dynamic type %T", tSrc, tDst, x)})
}

var _ = math.Ceil

// ---- slicing ----

func (fr *frame) sliceOp(instr *ssa.Slice, x, lo, hi, max value) value {
	l := int64(0)
	if lo != nil {
		l = fr.concInt(lo, "slice low bound")
	}
	switch x := x.(type) {
	case string, *SymStr:
		n := int64(strLen(x))
		h := n
		if hi != nil {
			h = fr.concInt(hi, "slice high bound")
		}
		if l < 0 || h < l || h > n {
			fpanic(fr, fmt.Sprintf("slice bounds out of range [%d:%d] with length %d", l, h, n))
		}
		if s, ok := x.(string); ok {
			return s[l:h]
		}
		return mkStr(x.(*SymStr).b[l:h])
	case []value:
		h := int64(len(x))
		if hi != nil {
			h = fr.concInt(hi, "slice high bound")
		}
		m := int64(cap(x))
		if max != nil {
			m = fr.concInt(max, "slice max")
		}
		if l < 0 || h < l || m < h || m > int64(cap(x)) {
			fpanic(fr, fmt.Sprintf("slice bounds out of range [%d:%d:%d] with capacity %d", l, h, m, cap(x)))
		}
		if x == nil {
			return x
		}
		return x[l:h:m]
	case *value: // *array
		if x == nil {
			fpanic(fr, "slice of nil array pointer")
		}
		a := (*x).(array)
		h := int64(len(a))
		if hi != nil {
			h = fr.concInt(hi, "slice high bound")
		}
		m := int64(len(a))
		if max != nil {
			m = fr.concInt(max, "slice max")
		}
		if l < 0 || h < l || m < h || m > int64(len(a)) {
			fpanic(fr, fmt.Sprintf("slice bounds out of range [%d:%d:%d] with capacity %d", l, h, m, len(a)))
		}
		return []value(a)[l:h:m]
	}
	panic(engineError{fmt.Sprintf("slice: unexpected X type: %T", x)})
}

// index resolves a (possibly symbolic) index into [0,n), raising the Go
// runtime panic when it can be out of range.
func (fr *frame) index(idx value, n int) int {
	t := idx.(*Term)
	if t.IsConst() {
		i := t.S()
		if t.w == 64 && (i < 0 || i >= int64(n)) {
			fpanic(fr, fmt.Sprintf("index out of range [%d] with length %d", i, n))
		}
		if t.w < 64 {
			i = int64(t.val)
			if i >= int64(n) {
				fpanic(fr, fmt.Sprintf("index out of range [%d] with length %d", i, n))
			}
		}
		return int(i)
	}
	tb := fr.w.tb
	// in range?
	inr := tb.Cmp(OpULt, t, K(t.w, uint64(n)))
	if n == 0 || !fr.w.branch(inr) {
		fpanic(fr, fmt.Sprintf("index out of range [symbolic] with length %d", n))
	}
	for i := 0; i < n-1; i++ {
		if fr.w.branch(tb.Cmp(OpEq, t, K(t.w, uint64(i)))) {
			return i
		}
	}
	return n - 1
}
