package symgo

import (
	"bufio"
	"fmt"
	"io"
	"os"
	"os/exec"
	"sync/atomic"
	"strings"
	"time"
)

// Result of a satisfiability check.
type Result int

const (
	Unsat Result = iota
	Sat
	Unknown
)

func (r Result) String() string { return [...]string{"unsat", "sat", "unknown"}[r] }

// Solver wraps one `z3 -in` process used incrementally.
type Solver struct {
	Bin     string
	cmd     *exec.Cmd
	in      io.WriteCloser
	out     *bufio.Reader
	log     *strings.Builder // script of the current path (for one-shot re-solving / dumps)
	defined map[int32]bool
	tables  map[string]bool // table functions defined inside the current path scope
	baseTables map[string]string // table functions defined at base level (name -> definition), shared by all paths
	pendingBase []string // names to be defined at base level at the next NewPath
	pathDefs map[string]string // definitions of tables first seen in this path
	usedBase map[string]bool // base tables referenced by the current path (for one-shot scripts)
	Queries int
	NSat    int
	NUnsat  int
	NUnk    int
	Errors  int
	Time    time.Duration
	TimeoutMs int
	HardMs    int
	OneShots  int
	Resyncs   int
	Died      bool // the process died during the current path: its context is lost
	Trace   io.Writer
}

func NewSolver(bin string, timeoutMs int) (*Solver, error) {
	s := &Solver{Bin: bin, TimeoutMs: timeoutMs}
	if err := s.start(); err != nil {
		return nil, err
	}
	return s, nil
}

func (s *Solver) start() error {
	args := []string{"-in"}
	if strings.Contains(s.Bin, "cvc5") {
		args = []string{"--incremental", "--lang=smt2", "--produce-models"}
	}
	s.cmd = exec.Command(s.Bin, args...)
	in, err := s.cmd.StdinPipe()
	if err != nil {
		return err
	}
	out, err := s.cmd.StdoutPipe()
	if err != nil {
		return err
	}
	s.cmd.Stderr = s.cmd.Stdout
	if err := s.cmd.Start(); err != nil {
		return err
	}
	s.in, s.out = in, bufio.NewReader(out)
	s.log = &strings.Builder{}
	s.defined = map[int32]bool{}
	s.tables = map[string]bool{}
	s.pathDefs = map[string]string{}
	s.usedBase = map[string]bool{}
	if s.baseTables == nil {
		s.baseTables = map[string]string{}
	}
	s.send("(set-option :produce-models true)")
	if !strings.Contains(s.Bin, "cvc5") {
		s.send(fmt.Sprintf("(set-option :timeout %d)", s.TimeoutMs))
	} else {
		s.send(fmt.Sprintf("(set-option :tlimit-per %d)", s.TimeoutMs))
		s.send("(set-logic ALL)")
	}
	// table functions shared by all paths live below the per-path scope
	for _, def := range s.baseTables {
		s.send(def)
	}
	s.send("(push 1)")
	return nil
}

func (s *Solver) Close() {
	if s.cmd != nil {
		s.in.Close()
		s.cmd.Process.Kill()
		s.cmd.Wait()
		s.cmd = nil
	}
}

func (s *Solver) send(line string) {
	if s.Trace != nil {
		fmt.Fprintln(s.Trace, line)
	}
	io.WriteString(s.in, line)
	io.WriteString(s.in, "\n")
}

// NewPath resets the solver to the empty context.
func (s *Solver) NewPath() {
	s.Died = false
	s.send("(pop 1)")
	// promote the tables first seen in the previous path to the base level
	if len(s.baseTables) < 20000 {
		for name, def := range s.pathDefs {
			if _, ok := s.baseTables[name]; !ok {
				s.baseTables[name] = def
				s.send(def)
			}
		}
	}
	s.send("(push 1)")
	s.log.Reset()
	s.defined = map[int32]bool{}
	s.tables = map[string]bool{}
	s.pathDefs = map[string]string{}
	s.usedBase = map[string]bool{}
}

func (s *Solver) emit(line string) {
	s.log.WriteString(line)
	s.log.WriteByte('\n')
	s.send(line)
}

// Declare a variable.
func (s *Solver) Declare(v *Term) {
	if s.defined[v.id] {
		return
	}
	s.defined[v.id] = true
	s.emit(fmt.Sprintf("(declare-const %s %s)", v.name, sortOf(v.w)))
}

// define makes sure t (and its sub-terms) are defined in the solver context.
func (s *Solver) define(t *Term) {
	if t == nil || t.op == OpConst {
		return
	}
	if s.defined[t.id] {
		return
	}
	if t.op == OpVar {
		s.Declare(t)
		return
	}
	// iterative post-order to avoid deep recursion
	type fr struct {
		t *Term
		k int
	}
	st := []fr{{t, 0}}
	for len(st) > 0 {
		f := &st[len(st)-1]
		kids := [3]*Term{f.t.a, f.t.b, f.t.c}
		pushed := false
		for f.k < 3 {
			c := kids[f.k]
			f.k++
			if c != nil && c.op != OpConst && !s.defined[c.id] {
				if c.op == OpVar {
					s.Declare(c)
					continue
				}
				st = append(st, fr{c, 0})
				pushed = true
				break
			}
		}
		if pushed {
			continue
		}
		x := f.t
		st = st[:len(st)-1]
		if s.defined[x.id] {
			continue
		}
		if x.op == OpTable {
			name := x.tbl.name(x.a.w)
			if _, inBase := s.baseTables[name]; inBase {
				s.usedBase[name] = true
			} else if !s.tables[name] {
				s.tables[name] = true
				def := x.tbl.def(x.a.w)
				s.pathDefs[name] = def
				s.emit(def)
			}
		}
		s.defined[x.id] = true
		// a named constant constrained by an equation (not define-fun: z3 expands
		// define-fun macros at every use, which loses the DAG sharing of deep terms)
		s.emit(fmt.Sprintf("(declare-const t%d %s)(assert (= t%d %s))", x.id, sortOf(x.w), x.id, x.body()))
	}
}

// Assert adds t to the context permanently (for this path).
func (s *Solver) Assert(t *Term) {
	if t.IsTrue() {
		return
	}
	s.define(t)
	s.emit(fmt.Sprintf("(assert %s)", t.ref()))
}

func (s *Solver) readLine() string {
	line, err := s.out.ReadString('\n')
	if err != nil {
		return "(error \"solver died: " + err.Error() + "\")"
	}
	return strings.TrimSpace(line)
}

func (s *Solver) checkSat() Result {
	t0 := time.Now()
	s.send("(check-sat)")
	s.send("(echo \"@@done\")")
	r := Unknown
	sawErr := false
	got := false
	for {
		line := s.readLine()
		if strings.Contains(line, "@@done") {
			break
		}
		switch {
		case line == "sat":
			r, got = Sat, true
		case line == "unsat":
			r, got = Unsat, true
		case line == "unknown" || line == "timeout":
			r, got = Unknown, true
		case strings.HasPrefix(line, "(error"):
			sawErr = true
			if s.Trace != nil {
				fmt.Fprintln(s.Trace, "; "+line)
			}
			if strings.Contains(line, "solver died") {
				s.Close()
				s.start()
				s.Died = true
				s.Errors++
				s.Time += time.Since(t0)
				s.Queries++
				s.NUnk++
				return Unknown
			}
		}
	}
	if sawErr || !got {
		// any error line makes the verdict inconclusive
		s.Errors++
		r = Unknown
	}
	s.Time += time.Since(t0)
	s.Queries++
	switch r {
	case Sat:
		s.NSat++
	case Unsat:
		s.NUnsat++
	default:
		s.NUnk++
	}
	return r
}

// Check decides pc ∧ extra without changing the context.
func (s *Solver) Check(extra *Term) Result {
	if extra.IsFalse() {
		return Unsat
	}
	s.define(extra)
	s.send("(push 1)")
	if !extra.IsTrue() {
		s.send(fmt.Sprintf("(assert %s)", extra.ref()))
	}
	t0 := time.Now()
	r := s.checkSat()
	s.send("(pop 1)")
	if r == Unknown && !s.Died {
		s.resync()
		if s.HardMs > 0 {
			r, _ = s.oneShot(extra, nil)
		}
	}
	s.dumpSlow(extra, r, time.Since(t0))
	return r
}

// resync restarts the solver process and replays the path context.  It is used
// after every incremental timeout: z3 4.8.12's incremental core was observed to
// return verdicts with models that violate asserted constraints after a
// cancelled check, so a cancelled process is never asked again.
func (s *Solver) resync() {
	logTxt := s.log.String()
	defd, tabs, pd, ub := s.defined, s.tables, s.pathDefs, s.usedBase
	tr := s.Trace
	s.Close()
	if err := s.start(); err != nil {
		s.Died = true
		return
	}
	s.Trace = tr
	s.log.WriteString(logTxt)
	s.defined, s.tables, s.pathDefs, s.usedBase = defd, tabs, pd, ub
	io.WriteString(s.in, logTxt)
	s.Resyncs++
}

// oneShot re-solves the current context plus extra in a fresh, non-incremental
// solver process (full preprocessing; often decides in a fraction of a second
// what the incremental core does not finish).
func (s *Solver) oneShot(extra *Term, vars []*Term) (Result, map[*Term]uint64) {
	t0 := time.Now()
	var full strings.Builder
	full.WriteString("(set-option :produce-models true)\n")
	for name := range s.usedBase {
		full.WriteString(s.baseTables[name])
		full.WriteString("\n")
	}
	full.WriteString(s.log.String())
	if !extra.IsTrue() {
		full.WriteString("(assert " + extra.ref() + ")\n")
	}
	full.WriteString("(check-sat)\n")
	if len(vars) > 0 {
		names := make([]string, len(vars))
		for i, v := range vars {
			names[i] = v.name
		}
		full.WriteString("(get-value (" + strings.Join(names, " ") + "))\n")
	}
	cmd := exec.Command(s.Bin, "-in", fmt.Sprintf("-t:%d", s.HardMs))
	cmd.Stdin = strings.NewReader(full.String())
	out, _ := cmd.CombinedOutput()
	txt := string(out)
	s.Time += time.Since(t0)
	s.OneShots++
	r := Unknown
	first, rest, _ := strings.Cut(strings.TrimSpace(txt), "\n")
	switch strings.TrimSpace(first) {
	case "sat":
		r = Sat
	case "unsat":
		r = Unsat
	}
	if strings.Contains(txt, "(error") && !(r == Unsat && strings.Contains(txt, "model is not available")) {
		r = Unknown
	}
	// re-classify the verdict in the statistics
	if r != Unknown {
		s.NUnk--
		if r == Sat {
			s.NSat++
		} else {
			s.NUnsat++
		}
	}
	var m map[*Term]uint64
	if r == Sat && len(vars) > 0 {
		vals := parseValues(rest)
		m = map[*Term]uint64{}
		for _, v := range vars {
			if x, ok := vals[v.name]; ok {
				m[v] = x
			}
		}
	}
	return r, m
}

var slowDir = os.Getenv("SYMGO_SLOWDIR")
var slowN int32

func (s *Solver) dumpSlow(extra *Term, r Result, d time.Duration) {
	if slowDir == "" || d < time.Second {
		return
	}
	n := atomic.AddInt32(&slowN, 1)
	os.MkdirAll(slowDir, 0o755)
	os.WriteFile(fmt.Sprintf("%s/q%03d-%s-%.1fs.smt2", slowDir, n, r, d.Seconds()),
		[]byte(s.Script()+"(assert "+extra.ref()+")\n(check-sat)\n"), 0o644)
}

// CheckModel decides pc ∧ extra and on sat returns values of vars.
func (s *Solver) CheckModel(extra *Term, vars []*Term) (Result, map[*Term]uint64) {
	if extra.IsFalse() {
		return Unsat, nil
	}
	s.define(extra)
	for _, v := range vars {
		s.Declare(v)
	}
	s.send("(push 1)")
	if !extra.IsTrue() {
		s.send(fmt.Sprintf("(assert %s)", extra.ref()))
	}
	t0 := time.Now()
	r := s.checkSat()
	if r == Unknown && !s.Died {
		s.resync()
		if s.HardMs > 0 {
			r2, m2 := s.oneShot(extra, vars)
			s.dumpSlow(extra, r2, time.Since(t0))
			return r2, m2
		}
		return r, nil
	}
	s.dumpSlow(extra, r, time.Since(t0))
	var m map[*Term]uint64
	if r == Sat {
		m = map[*Term]uint64{}
		if len(vars) > 0 {
			names := make([]string, len(vars))
			for i, v := range vars {
				names[i] = v.name
			}
			s.send("(get-value (" + strings.Join(names, " ") + "))")
			txt := s.readSexp()
			vals := parseValues(txt)
			for _, v := range vars {
				if x, ok := vals[v.name]; ok {
					m[v] = x
				}
			}
		}
	}
	s.send("(pop 1)")
	return r, m
}

// readSexp reads one balanced s-expression from the solver.
func (s *Solver) readSexp() string {
	var sb strings.Builder
	depth := 0
	started := false
	for {
		line := s.readLine()
		sb.WriteString(line)
		sb.WriteByte(' ')
		for _, ch := range line {
			if ch == '(' {
				depth++
				started = true
			} else if ch == ')' {
				depth--
			}
		}
		if started && depth <= 0 {
			break
		}
		if strings.HasPrefix(line, "(error") {
			break
		}
	}
	return sb.String()
}

func parseValues(txt string) map[string]uint64 {
	// ((name #x..) (name #b..) (name true) (name (_ bv5 8)))
	res := map[string]uint64{}
	txt = strings.ReplaceAll(txt, "(_ bv", "_bv")
	txt = strings.NewReplacer("(", " ", ")", " ").Replace(txt)
	f := strings.Fields(txt)
	for i := 0; i+1 < len(f); {
		name, val := f[i], f[i+1]
		i += 2
		var x uint64
		switch {
		case strings.HasPrefix(val, "#x"):
			fmt.Sscanf(val[2:], "%x", &x)
		case strings.HasPrefix(val, "#b"):
			fmt.Sscanf(val[2:], "%b", &x)
		case val == "true":
			x = 1
		case val == "false":
			x = 0
		case strings.HasPrefix(val, "_bv"):
			fmt.Sscanf(val[3:], "%d", &x)
			i++ // skip width
		default:
			continue
		}
		res[name] = x
	}
	return res
}

// Script returns the SMT-LIB text of the current path context (declarations,
// definitions, assertions), for dumps and one-shot re-solving.
func (s *Solver) Script() string {
	var sb strings.Builder
	for name := range s.usedBase {
		sb.WriteString(s.baseTables[name])
		sb.WriteString("\n")
	}
	sb.WriteString(s.log.String())
	return sb.String()
}

// OneShot solves script+assertion in a fresh solver process (non-incremental
// mode uses the solver's full preprocessing), with its own timeout.
func OneShot(bin string, script string, extra string, timeoutMs int) (Result, time.Duration) {
	t0 := time.Now()
	var full strings.Builder
	if strings.Contains(bin, "cvc5") {
		full.WriteString("(set-logic ALL)\n")
	}
	full.WriteString(script)
	if extra != "" {
		full.WriteString("(assert " + extra + ")\n")
	}
	full.WriteString("(check-sat)\n")
	args := []string{"-in", fmt.Sprintf("-t:%d", timeoutMs)}
	if strings.Contains(bin, "cvc5") {
		args = []string{"--lang=smt2", fmt.Sprintf("--tlimit=%d", timeoutMs)}
	}
	cmd := exec.Command(bin, args...)
	cmd.Stdin = strings.NewReader(full.String())
	out, _ := cmd.CombinedOutput()
	txt := string(out)
	d := time.Since(t0)
	if strings.Contains(txt, "(error") {
		return Unknown, d
	}
	for _, l := range strings.Split(txt, "\n") {
		switch strings.TrimSpace(l) {
		case "sat":
			return Sat, d
		case "unsat":
			return Unsat, d
		}
	}
	return Unknown, d
}
