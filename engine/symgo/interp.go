package symgo

import (
	"fmt"
	"go/token"
	"go/types"
	"slices"
	"strings"

	"golang.org/x/tools/go/ssa"
)

// engineError is raised for anything the engine cannot model; it is never
// visible to the target program and ends the path as "engine-error".
type engineError struct{ msg string }

func (e engineError) Error() string { return e.msg }

// pathEnd ends the current path silently (assume(false), sentinel stop).
type pathEnd struct{ reason string }

// targetPanic is a panic of the program under test.
type targetPanic struct {
	v    value
	site string
}

type deferred struct {
	fn    value
	args  []value
	instr *ssa.Defer
	tail  *deferred
}

type frame struct {
	w                *Worker
	caller           *frame
	fn               *ssa.Function
	block, prevBlock *ssa.BasicBlock
	env              map[ssa.Value]value
	locals           []value
	defers           *deferred
	result           value
	panicking        bool
	panic            interface{}
	phitemps         []value
	cur              ssa.Instruction
}

func (fr *frame) site() string {
	if fr == nil || fr.fn == nil {
		return "?"
	}
	pos := token.NoPos
	if fr.cur != nil {
		pos = fr.cur.Pos()
	}
	f := fr
	for pos == token.NoPos && f != nil {
		if f.cur != nil {
			pos = f.cur.Pos()
		}
		if pos == token.NoPos {
			pos = f.fn.Pos()
		}
		f = f.caller
	}
	p := fr.fn.Prog.Fset.Position(pos)
	file := p.Filename
	if i := strings.LastIndex(file, "/"); i >= 0 {
		file = file[i+1:]
	}
	return fmt.Sprintf("%s %s:%d", fr.fn.String(), file, p.Line)
}

// stack renders the target call stack (innermost first), for diagnostics.
func (fr *frame) stack(max int) []string {
	var out []string
	for f := fr; f != nil && len(out) < max; f = f.caller {
		out = append(out, f.site())
	}
	return out
}

func (fr *frame) get(key ssa.Value) value {
	switch key := key.(type) {
	case nil:
		return nil
	case *ssa.Function, *ssa.Builtin:
		return key
	case *ssa.Const:
		return constValue(key)
	case *ssa.Global:
		return fr.w.eng.global(fr.w, key)
	}
	if r, ok := fr.env[key]; ok {
		return r
	}
	panic(engineError{fmt.Sprintf("get: no value for %T: %v in %s", key, key.Name(), fr.fn)})
}

func (fr *frame) runDefer(d *deferred) {
	var ok bool
	defer func() {
		if !ok {
			r := recover()
			if _, isT := r.(targetPanic); !isT {
				panic(r) // engine errors and path ends propagate
			}
			fr.panicking = true
			fr.panic = r
		}
	}()
	fr.w.call(fr, d.instr.Pos(), d.fn, d.args)
	ok = true
}

func (fr *frame) runDefers() {
	for d := fr.defers; d != nil; d = d.tail {
		fr.runDefer(d)
	}
	fr.defers = nil
	if fr.panicking {
		panic(fr.panic)
	}
}

func (w *Worker) lookupMethod(typ types.Type, meth *types.Func) *ssa.Function {
	return w.eng.lookupMethod(typ, meth)
}

type continuation int

const (
	kNext continuation = iota
	kReturn
	kJump
)

func (fr *frame) visitInstr(instr ssa.Instruction) continuation {
	w := fr.w
	fr.cur = instr
	w.steps++
	if w.steps > w.eng.MaxSteps {
		panic(engineError{"step budget exceeded (possible non-termination)"})
	}
	switch instr := instr.(type) {
	case *ssa.DebugRef:

	case *ssa.UnOp:
		fr.env[instr] = fr.unop(instr, fr.get(instr.X))

	case *ssa.BinOp:
		fr.env[instr] = fr.binop(instr.Op, instr.X.Type(), fr.get(instr.X), fr.get(instr.Y))

	case *ssa.Call:
		fn, args := fr.prepareCall(&instr.Call)
		fr.env[instr] = w.call(fr, instr.Pos(), fn, args)

	case *ssa.ChangeInterface:
		fr.env[instr] = fr.get(instr.X)

	case *ssa.ChangeType:
		fr.env[instr] = fr.get(instr.X)

	case *ssa.Convert:
		fr.env[instr] = fr.conv(instr.Type(), instr.X.Type(), fr.get(instr.X))

	case *ssa.SliceToArrayPointer:
		x := fr.get(instr.X).([]value)
		n := instr.Type().Underlying().(*types.Pointer).Elem().Underlying().(*types.Array).Len()
		if int64(len(x)) < n {
			fpanic(fr, "cannot convert slice to array pointer: length too small")
		}
		if x == nil {
			fr.env[instr] = (*value)(nil)
		} else {
			v := value(array(x[:n:n]))
			fr.env[instr] = &v
		}

	case *ssa.MakeInterface:
		fr.env[instr] = iface{t: instr.X.Type(), v: fr.get(instr.X)}

	case *ssa.Extract:
		fr.env[instr] = fr.get(instr.Tuple).(tuple)[instr.Index]

	case *ssa.Slice:
		fr.env[instr] = fr.sliceOp(instr, fr.get(instr.X), fr.get(instr.Low), fr.get(instr.High), fr.get(instr.Max))

	case *ssa.Return:
		switch len(instr.Results) {
		case 0:
		case 1:
			fr.result = fr.get(instr.Results[0])
		default:
			res := make(tuple, 0, len(instr.Results))
			for _, r := range instr.Results {
				res = append(res, fr.get(r))
			}
			fr.result = res
		}
		fr.block = nil
		return kReturn

	case *ssa.RunDefers:
		fr.runDefers()

	case *ssa.Panic:
		panic(targetPanic{v: fr.get(instr.X), site: fr.site()})

	case *ssa.Send:
		w.chanSend(fr, fr.get(instr.Chan).(*Chan), fr.get(instr.X))

	case *ssa.Store:
		addr := fr.get(instr.Addr)
		switch p := addr.(type) {
		case *value:
			if p == nil {
				fpanic(fr, "invalid memory address or nil pointer dereference")
			}
			store(p, fr.get(instr.Val))
		case *symElemPtr:
			i := fr.index(p.idx, len(p.elems))
			store(&p.elems[i], fr.get(instr.Val))
		default:
			panic(engineError{fmt.Sprintf("store to %T", addr)})
		}

	case *ssa.If:
		succ := 1
		switch c := fr.get(instr.Cond).(type) {
		case bool:
			if c {
				succ = 0
			}
		case *Term:
			if w.branch(c) {
				succ = 0
			}
		}
		fr.prevBlock, fr.block = fr.block, fr.block.Succs[succ]
		return kJump

	case *ssa.Jump:
		fr.prevBlock, fr.block = fr.block, fr.block.Succs[0]
		return kJump

	case *ssa.Defer:
		fn, args := fr.prepareCall(&instr.Call)
		defers := &fr.defers
		if instr.DeferStack != nil {
			if into := fr.get(instr.DeferStack); into != nil {
				defers = into.(**deferred)
			}
		}
		*defers = &deferred{fn: fn, args: args, instr: instr, tail: *defers}

	case *ssa.Go:
		fn, args := fr.prepareCall(&instr.Call)
		w.spawn(fr, instr, fn, args)

	case *ssa.MakeChan:
		n := fr.concInt(fr.get(instr.Size), "chan size")
		fr.env[instr] = &Chan{cap: int(n), elemT: instr.Type().Underlying().(*types.Chan).Elem()}

	case *ssa.Alloc:
		var addr *value
		if instr.Heap {
			addr = new(value)
			fr.env[instr] = addr
		} else {
			addr = fr.env[instr].(*value)
		}
		*addr = zero(deref(instr.Type()))

	case *ssa.MakeSlice:
		c := fr.concInt(fr.get(instr.Cap), "make cap")
		l := fr.concInt(fr.get(instr.Len), "make len")
		if l < 0 || c < l || c > 1<<24 {
			fpanic(fr, "makeslice: len out of range")
		}
		s := make([]value, c)
		tElt := instr.Type().Underlying().(*types.Slice).Elem()
		for i := range s {
			s[i] = zero(tElt)
		}
		fr.env[instr] = s[:l]

	case *ssa.MakeMap:
		fr.env[instr] = newMap(instr.Type().Underlying().(*types.Map).Key())

	case *ssa.Range:
		fr.env[instr] = fr.rangeIter(fr.get(instr.X))

	case *ssa.Next:
		fr.env[instr] = fr.get(instr.Iter).(iter).next(fr)

	case *ssa.FieldAddr:
		p := fr.ptr(fr.get(instr.X))
		if p == nil {
			fpanic(fr, "invalid memory address or nil pointer dereference")
		}
		fr.env[instr] = &(*p).(structure)[instr.Field]

	case *ssa.Field:
		fr.env[instr] = fr.get(instr.X).(structure)[instr.Field]

	case *ssa.IndexAddr:
		x := fr.get(instr.X)
		idx := fr.get(instr.Index)
		var elems []value
		switch x := x.(type) {
		case []value:
			elems = x
		case *value:
			if x == nil {
				fpanic(fr, "invalid memory address or nil pointer dereference")
			}
			elems = (*x).(array)
		default:
			panic(engineError{fmt.Sprintf("unexpected x type in IndexAddr: %T", x)})
		}
		it := idx.(*Term)
		if !it.IsConst() && len(elems) > 0 {
			fr.env[instr] = &symElemPtr{elems: elems, idx: fr.boundedIndex(it, len(elems))}
		} else {
			fr.env[instr] = &elems[fr.index(idx, len(elems))]
		}

	case *ssa.Index:
		x := fr.get(instr.X)
		idx := fr.get(instr.Index)
		switch x := x.(type) {
		case array:
			it := idx.(*Term)
			if !it.IsConst() && len(x) > 0 {
				fr.env[instr] = fr.loadSym(&symElemPtr{elems: x, idx: fr.boundedIndex(it, len(x))})
			} else {
				fr.env[instr] = copyVal(x[fr.index(idx, len(x))])
			}
		case string:
			it := idx.(*Term)
			if !it.IsConst() && len(x) > 0 {
				elems := make([]value, len(x))
				for i := range elems {
					elems[i] = K(8, uint64(x[i]))
				}
				fr.env[instr] = fr.loadSym(&symElemPtr{elems: elems, idx: fr.boundedIndex(it, len(x))})
			} else {
				fr.env[instr] = K(8, uint64(x[fr.index(idx, len(x))]))
			}
		case *SymStr:
			fr.env[instr] = x.b[fr.index(idx, len(x.b))]
		default:
			panic(engineError{fmt.Sprintf("unexpected x type in Index: %T", x)})
		}

	case *ssa.Lookup:
		fr.env[instr] = fr.lookup(instr, fr.get(instr.X), fr.get(instr.Index))

	case *ssa.MapUpdate:
		m := fr.get(instr.Map).(*Map)
		m.insert(fr, fr.get(instr.Key), copyVal(fr.get(instr.Value)))

	case *ssa.TypeAssert:
		fr.env[instr] = fr.typeAssert(instr, fr.get(instr.X).(iface))

	case *ssa.MakeClosure:
		var bindings []value
		for _, binding := range instr.Bindings {
			bindings = append(bindings, fr.get(binding))
		}
		fr.env[instr] = &closure{instr.Fn.(*ssa.Function), bindings}

	case *ssa.Select:
		fr.env[instr] = w.selectOp(fr, instr)

	default:
		panic(engineError{fmt.Sprintf("unexpected instruction: %T", instr)})
	}
	return kNext
}

// ptr resolves a pointer value to a concrete cell (forking on symbolic indices).
func (fr *frame) ptr(v value) *value {
	switch p := v.(type) {
	case *value:
		return p
	case *symElemPtr:
		return &p.elems[fr.index(p.idx, len(p.elems))]
	}
	panic(engineError{fmt.Sprintf("ptr of %T", v)})
}

// sliceDataPtr is the result of unsafe.SliceData / unsafe.StringData.
type sliceDataPtr struct {
	s   []value
	str value
}

// symElemPtr is the address of an element selected by a symbolic index.
type symElemPtr struct {
	elems []value
	idx   *Term
}

// boundedIndex checks idx against n (forking on the out-of-range case) and
// returns idx.
func (fr *frame) boundedIndex(idx *Term, n int) *Term {
	tb := fr.w.tb
	if tb.IV(idx).uhi < uint64(n) {
		return idx
	}
	if !fr.w.branch(tb.Cmp(OpULt, idx, K(idx.w, uint64(n)))) {
		fpanic(fr, fmt.Sprintf("index out of range [symbolic] with length %d", n))
	}
	return idx
}

// loadSym loads through a symbolic element pointer: a table term when all
// elements are integer constants, otherwise a case split on the index.
func (fr *frame) loadSym(p *symElemPtr) value {
	var w uint8
	ok := true
	for _, e := range p.elems {
		t, isT := e.(*Term)
		if !isT || !t.IsConst() || t.w == 0 || (w != 0 && t.w != w) {
			ok = false
			break
		}
		w = t.w
	}
	if ok && len(p.elems) <= 4096 {
		tbl := fr.w.tableFor(p.elems, w)
		return fr.w.tb.TableLookup(tbl, p.idx)
	}
	// bool tables (e.g. [256]bool)
	allBool := true
	for _, e := range p.elems {
		if _, isB := e.(bool); !isB {
			allBool = false
			break
		}
	}
	if allBool && len(p.elems) <= 4096 {
		tmp := make([]value, len(p.elems))
		for i, e := range p.elems {
			if e.(bool) {
				tmp[i] = K(8, 1)
			} else {
				tmp[i] = K(8, 0)
			}
		}
		tbl := fr.w.tableFor(tmp, 8)
		return boolV(fr.w.tb.Cmp(OpEq, fr.w.tb.TableLookup(tbl, p.idx), K(8, 1)))
	}
	i := fr.index(p.idx, len(p.elems))
	return copyVal(p.elems[i])
}

func (fr *frame) rangeIter(x value) iter {
	switch x := x.(type) {
	case *Map:
		var ents []*mapEntry
		if x != nil {
			ents = append(ents, x.entries...)
		}
		if fr.w.mapOrderNondet && len(ents) > 1 {
			ents = fr.w.permute(ents)
		}
		return &mapIter{ents: ents}
	case string, *SymStr:
		return &strIter{b: strBytes(x)}
	}
	panic(engineError{fmt.Sprintf("cannot range over %T", x)})
}

func (fr *frame) lookup(instr *ssa.Lookup, x, idx value) value {
	switch x := x.(type) {
	case *Map:
		v, ok := x.lookup(fr, idx)
		if !ok {
			v = zero(instr.X.Type().Underlying().(*types.Map).Elem())
		} else {
			v = copyVal(v)
		}
		if instr.CommaOk {
			return tuple{v, ok}
		}
		return v
	}
	panic(engineError{fmt.Sprintf("unexpected x type in Lookup: %T", x)})
}

func (fr *frame) typeAssert(instr *ssa.TypeAssert, itf iface) value {
	var v value
	err := ""
	if itf.t == nil {
		err = fmt.Sprintf("interface conversion: interface is nil, not %s", instr.AssertedType)
	} else if idst, ok := instr.AssertedType.Underlying().(*types.Interface); ok {
		v = itf
		if meth, _ := types.MissingMethod(itf.t, idst, true); meth != nil {
			err = fmt.Sprintf("interface conversion: %v is not %v: missing method %s", itf.t, idst, meth.Name())
		}
	} else if types.Identical(itf.t, instr.AssertedType) {
		v = itf.v
	} else {
		err = fmt.Sprintf("interface conversion: interface is %s, not %s", itf.t, instr.AssertedType)
	}
	if err != "" {
		if !instr.CommaOk {
			fpanic(fr, err)
		}
		return tuple{zero(instr.AssertedType), false}
	}
	if instr.CommaOk {
		return tuple{v, true}
	}
	return v
}

func (fr *frame) prepareCall(call *ssa.CallCommon) (fn value, args []value) {
	v := fr.get(call.Value)
	if call.Method == nil {
		fn = v
	} else {
		recv := v.(iface)
		if recv.t == nil {
			fpanic(fr, "invalid memory address or nil pointer dereference (method call on nil interface)")
		}
		f := fr.w.lookupMethod(recv.t, call.Method)
		if f == nil {
			panic(engineError{fmt.Sprintf("method set for dynamic type %v does not contain %s", recv.t, call.Method)})
		}
		fn = f
		args = append(args, recv.v)
	}
	for _, arg := range call.Args {
		args = append(args, fr.get(arg))
	}
	return
}

func (w *Worker) call(caller *frame, callpos token.Pos, fn value, args []value) value {
	switch fn := fn.(type) {
	case *ssa.Function:
		if fn == nil {
			fpanic(caller, "call of nil function")
		}
		return w.callSSA(caller, callpos, fn, args, nil)
	case *closure:
		return w.callSSA(caller, callpos, fn.Fn, args, fn.Env)
	case *ssa.Builtin:
		return w.callBuiltin(caller, callpos, fn, args)
	case *nativeFn:
		return fn.f(caller, args)
	}
	panic(engineError{fmt.Sprintf("cannot call %T", fn)})
}

func (w *Worker) callSSA(caller *frame, callpos token.Pos, fn *ssa.Function, args []value, env []value) value {
	fr := &frame{w: w, caller: caller, fn: fn}
	w.depth++
	if w.depth > 2000 {
		panic(engineError{"call depth exceeded"})
	}
	defer func() { w.depth-- }()
	if fn.Parent() == nil {
		if in := w.eng.intrinsic(fn); in != nil {
			return in(fr, args)
		}
		if fn.Blocks == nil {
			panic(engineError{fmt.Sprintf("no code for function: %s (called from %v)", fn.String(), caller.stack(6))})
		}
	}
	return w.exec(fr, args, env)
}

// exec runs the SSA body of fr.fn.
func (w *Worker) exec(fr *frame, args []value, env []value) value {
	fn := fr.fn
	if fn.Blocks == nil {
		panic(engineError{"no code for function: " + fn.String()})
	}
	if fn.TypeParams().Len() > 0 && len(fn.TypeArgs()) == 0 {
		panic(engineError{"uninstantiated generic function " + fn.String()})
	}
	if w.eng.Trace {
		fmt.Fprintf(w.eng.TraceOut, "%*scall %s\n", w.depth, "", fn)
	}
	w.eng.noteFunc(w, fn)
	fr.env = make(map[ssa.Value]value, len(fn.Params)+8)
	fr.block = fn.Blocks[0]
	fr.locals = make([]value, len(fn.Locals))
	for i, l := range fn.Locals {
		fr.locals[i] = zero(deref(l.Type()))
		fr.env[l] = &fr.locals[i]
	}
	for i, p := range fn.Params {
		fr.env[p] = args[i]
	}
	for i, fv := range fn.FreeVars {
		fr.env[fv] = env[i]
	}
	for fr.block != nil {
		fr.runFrame()
	}
	return fr.result
}

func (fr *frame) runFrame() {
	defer func() {
		if fr.block == nil {
			return // normal return
		}
		r := recover()
		if _, isT := r.(targetPanic); !isT {
			panic(r) // engine error / path end / internal bug: propagate to the path driver
		}
		fr.panicking = true
		fr.panic = r
		fr.runDefers()
		fr.block = fr.fn.Recover
		if fr.block == nil {
			// recovered in a function without named results: return zero values
			fr.result = zero(fr.fn.Signature.Results())
			if fr.fn.Signature.Results().Len() == 0 {
				fr.result = nil
			}
		}
	}()
	for {
		nonPhis := fr.executePhis()
		for _, instr := range nonPhis {
			if fr.visitInstr(instr) == kReturn {
				return
			}
		}
	}
}

func (fr *frame) executePhis() []ssa.Instruction {
	firstNonPhi := -1
	for i, instr := range fr.block.Instrs {
		if _, ok := instr.(*ssa.Phi); !ok {
			firstNonPhi = i
			break
		}
	}
	nonPhis := fr.block.Instrs[firstNonPhi:]
	if firstNonPhi > 0 {
		phis := fr.block.Instrs[:firstNonPhi]
		predIndex := slices.Index(fr.block.Preds, fr.prevBlock)
		fr.phitemps = fr.phitemps[:0]
		for _, phi := range phis {
			phi := phi.(*ssa.Phi)
			fr.phitemps = append(fr.phitemps, fr.get(phi.Edges[predIndex]))
		}
		for i, phi := range phis {
			fr.env[phi.(*ssa.Phi)] = fr.phitemps[i]
		}
	}
	return nonPhis
}

func doRecover(caller *frame) value {
	if caller != nil && !caller.panicking &&
		caller.caller != nil && caller.caller.panicking {
		caller.caller.panicking = false
		p := caller.caller.panic
		caller.caller.panic = nil
		switch p := p.(type) {
		case targetPanic:
			caller.w.lastRecovered = &p
			switch v := p.v.(type) {
			case runtimeError:
				return iface{caller.w.eng.runtimeErrorString, string(v)}
			case string:
				return iface{caller.w.eng.runtimeErrorString, v}
			case iface:
				return v
			}
			return iface{caller.w.eng.runtimeErrorString, fmt.Sprint(p.v)}
		default:
			panic(p)
		}
	}
	return iface{}
}

func (w *Worker) callBuiltin(caller *frame, callpos token.Pos, fn *ssa.Builtin, args []value) value {
	switch fn.Name() {
	case "append":
		if len(args) == 1 {
			return args[0]
		}
		a0 := args[0].([]value)
		switch s := args[1].(type) {
		case string, *SymStr:
			for _, b := range strBytes(s) {
				a0 = append(a0, b)
			}
			return a0
		case []value:
			for _, v := range s {
				a0 = append(a0, copyVal(v))
			}
			return a0
		}
		panic(engineError{"append: bad arg"})

	case "copy":
		dst := args[0].([]value)
		switch src := args[1].(type) {
		case string, *SymStr:
			b := strBytes(src)
			n := len(b)
			if len(dst) < n {
				n = len(dst)
			}
			for i := 0; i < n; i++ {
				dst[i] = b[i]
			}
			return K(64, uint64(n))
		case []value:
			n := len(src)
			if len(dst) < n {
				n = len(dst)
			}
			tmp := make([]value, n)
			for i := 0; i < n; i++ {
				tmp[i] = copyVal(src[i])
			}
			copy(dst, tmp)
			return K(64, uint64(n))
		}
		panic(engineError{"copy: bad arg"})

	case "close":
		w.chanClose(caller, args[0].(*Chan))
		return nil

	case "delete":
		args[0].(*Map).remove(caller, args[1])
		return nil

	case "print", "println":
		return nil

	case "len":
		switch x := args[0].(type) {
		case string, *SymStr:
			return K(64, uint64(strLen(x)))
		case array:
			return K(64, uint64(len(x)))
		case *value:
			return K(64, uint64(len((*x).(array))))
		case []value:
			return K(64, uint64(len(x)))
		case *Map:
			return K(64, uint64(x.length()))
		case *Chan:
			if x == nil {
				return K(64, 0)
			}
			return K(64, uint64(len(x.buf)))
		}
		panic(engineError{fmt.Sprintf("len: illegal operand: %T", args[0])})

	case "cap":
		switch x := args[0].(type) {
		case array:
			return K(64, uint64(cap(x)))
		case *value:
			return K(64, uint64(cap((*x).(array))))
		case []value:
			return K(64, uint64(cap(x)))
		case *Chan:
			return K(64, uint64(x.cap))
		}
		panic(engineError{fmt.Sprintf("cap: illegal operand: %T", args[0])})

	case "min", "max":
		x := args[0]
		t := fn.Type().(*types.Signature).Params().At(0).Type()
		for _, y := range args[1:] {
			var lt value
			if fn.Name() == "min" {
				lt = caller.binop(token.LSS, t, y, x)
			} else {
				lt = caller.binop(token.GTR, t, y, x)
			}
			switch c := lt.(type) {
			case bool:
				if c {
					x = y
				}
			case *Term:
				if xt, ok := x.(*Term); ok {
					x = w.tb.Ite(c, y.(*Term), xt)
				} else if w.branch(c) {
					x = y
				}
			}
		}
		return x

	case "panic":
		panic(targetPanic{v: args[0], site: caller.site()})

	case "recover":
		return doRecover(caller)

	case "ssa:wrapnilchk":
		recv := args[0]
		if p, ok := recv.(*value); ok && p == nil {
			fpanic(caller, "value method called using nil pointer")
		}
		return recv

	case "ssa:deferstack":
		return &caller.defers

	case "SliceData":
		return &sliceDataPtr{s: args[0].([]value)}
	case "StringData":
		return &sliceDataPtr{str: args[0]}
	case "String":
		n := caller.concInt(args[1], "unsafe.String length")
		p, ok := args[0].(*sliceDataPtr)
		if !ok {
			if n == 0 {
				return ""
			}
			panic(engineError{fmt.Sprintf("unsafe.String of a foreign pointer %T at %v", args[0], caller.stack(5))})
		}
		if p.str != nil {
			return mkStr(strBytes(p.str)[:n])
		}
		b := make([]*Term, n)
		for i := range b {
			b[i] = p.s[i].(*Term)
		}
		return mkStr(b)
	case "Slice":
		n := caller.concInt(args[1], "unsafe.Slice length")
		p, ok := args[0].(*sliceDataPtr)
		if !ok {
			panic(engineError{"unsafe.Slice of a foreign pointer"})
		}
		if p.str != nil {
			bs := strBytes(p.str)
			out := make([]value, n)
			for i := range out {
				out[i] = bs[i]
			}
			return out
		}
		return p.s[:n]
	}
	panic(engineError{"unknown built-in: " + fn.Name()})
}
