package symgo

import (
	"fmt"
	"math/rand"
)

// SimplifierSelfTest validates the rewrite rules and the interval analysis:
// random expressions are built twice (with and without simplification) under
// random path constraints, and the solver must prove them equal.  It returns
// the number of equivalence lemmas proven and an error on the first mismatch.
func SimplifierSelfTest(solverBin string, rounds int, seed int64) (int, error) {
	rng := rand.New(rand.NewSource(seed))
	sol, err := NewSolver(solverBin, 20000)
	if err != nil {
		return 0, err
	}
	defer sol.Close()
	proven := 0
	for r := 0; r < rounds; r++ {
		tb := NewTB()
		sol.NewPath()
		var bytesV []*Term
		for i := 0; i < 3; i++ {
			v := tb.Var(fmt.Sprintf("b%d", i), 8)
			sol.Declare(v)
			bytesV = append(bytesV, v)
		}
		iv := tb.Var("i0", 64)
		sol.Declare(iv)
		// range constraint on i0
		lo := int64(rng.Intn(200)) - 100
		hi := lo + int64(rng.Intn(3000))
		tb.NoSimp = true
		rc := tb.And(tb.Cmp(OpSLe, K(64, uint64(lo)), iv), tb.Cmp(OpSLe, iv, K(64, uint64(hi))))
		sol.Assert(rc)
		tb.NoSimp = false
		tb.SetVarRange(iv, lo, hi)

		type pair struct{ s, n *Term } // simplified, not simplified
		both := func(f func() *Term) pair {
			tb.NoSimp = false
			s := f()
			tb.NoSimp = true
			n := f()
			tb.NoSimp = false
			return pair{s, n}
		}
		consts := []uint64{0, 1, 2, 3, 7, 10, 24, 48, 60, 100, 255, 256, 600, 1440, 3600, 86400, 0x7fffffefa6e6a080, ^uint64(0), ^uint64(59)}
		var gen func(d int) pair
		leaf := func() pair {
			switch rng.Intn(4) {
			case 0:
				return pair{iv, iv}
			case 1:
				c := K(64, consts[rng.Intn(len(consts))])
				return pair{c, c}
			default:
				b := bytesV[rng.Intn(3)]
				if rng.Intn(3) == 0 {
					// digit value: b - '0'
					p := both(func() *Term { return tb.Bin(OpSub, b, K(8, '0')) })
					return pair{tb.Zext(p.s, 64), func() *Term { tb.NoSimp = true; defer func() { tb.NoSimp = false }(); return tb.Zext(p.n, 64) }()}
				}
				return both(func() *Term { return tb.Zext(b, 64) })
			}
		}
		genBool := func(d int) pair {
			a, b := gen(d-1), gen(d-1)
			op := []Op{OpEq, OpULt, OpULe, OpSLt, OpSLe}[rng.Intn(5)]
			tb.NoSimp = false
			s := tb.Cmp(op, a.s, b.s)
			tb.NoSimp = true
			n := tb.Cmp(op, a.n, b.n)
			tb.NoSimp = false
			return pair{s, n}
		}
		gen = func(d int) pair {
			if d <= 0 {
				return leaf()
			}
			k := rng.Intn(14)
			a := gen(d - 1)
			mk2 := func(f func(x, y *Term) *Term, b pair) pair {
				tb.NoSimp = false
				s := f(a.s, b.s)
				tb.NoSimp = true
				n := f(a.n, b.n)
				tb.NoSimp = false
				return pair{s, n}
			}
			cst := func() pair { c := K(64, consts[1+rng.Intn(len(consts)-4)]); return pair{c, c} }
			switch k {
			case 0, 1:
				return mk2(func(x, y *Term) *Term { return tb.Bin(OpAdd, x, y) }, gen(d-1))
			case 2:
				return mk2(func(x, y *Term) *Term { return tb.Bin(OpSub, x, y) }, gen(d-1))
			case 3, 4:
				return mk2(func(x, y *Term) *Term { return tb.Bin(OpMul, x, y) }, cst())
			case 5:
				return mk2(func(x, y *Term) *Term { return tb.Bin(OpUDiv, x, y) }, cst())
			case 6:
				return mk2(func(x, y *Term) *Term { return tb.Bin(OpURem, x, y) }, cst())
			case 7:
				return mk2(func(x, y *Term) *Term { return tb.Bin(OpSDiv, x, y) }, cst())
			case 8:
				return mk2(func(x, y *Term) *Term { return tb.Bin(OpSRem, x, y) }, cst())
			case 9:
				sh := pair{K(64, uint64(rng.Intn(8))), nil}
				sh.n = sh.s
				op := []Op{OpShl, OpLShr, OpAShr, OpAnd}[rng.Intn(4)]
				if op == OpAnd {
					sh.s = K(64, []uint64{0x3f, 0xff, 0xffff, 0x1f}[rng.Intn(4)])
					sh.n = sh.s
				}
				return mk2(func(x, y *Term) *Term { return tb.Bin(op, x, y) }, sh)
			case 10:
				c := genBool(d)
				b := gen(d - 1)
				tb.NoSimp = false
				s := tb.Ite(c.s, a.s, b.s)
				tb.NoSimp = true
				n := tb.Ite(c.n, a.n, b.n)
				tb.NoSimp = false
				return pair{s, n}
			case 11:
				w := []uint8{8, 16, 32}[rng.Intn(3)]
				ext := rng.Intn(2) == 0
				f := func(x *Term) *Term {
					e := tb.Extract(x, 0, w)
					if ext {
						return tb.Sext(e, 64)
					}
					return tb.Zext(e, 64)
				}
				tb.NoSimp = false
				s := f(a.s)
				tb.NoSimp = true
				n := f(a.n)
				tb.NoSimp = false
				return pair{s, n}
			case 12:
				tb.NoSimp = false
				s := tb.Neg(a.s)
				tb.NoSimp = true
				n := tb.Neg(a.n)
				tb.NoSimp = false
				return pair{s, n}
			}
			return a
		}
		check := func(p pair, what string) error {
			if p.s == p.n {
				return nil
			}
			tb.NoSimp = true
			ne := tb.Not(tb.Cmp(OpEq, p.s, p.n))
			tb.NoSimp = false
			res := sol.Check(ne)
			if res == Unsat {
				proven++
				return nil
			}
			if res == Unknown {
				return nil // not counted
			}
			return fmt.Errorf("simplifier mismatch (%s, round %d seed %d):\n simp: %s\n raw:  %s\nscript:\n%s", what, r, seed, p.s.deep(12), p.n.deep(12), sol.Script())
		}
		// a few path constraints, each checked and then assumed
		for c := 0; c < 3; c++ {
			p := genBool(2)
			if err := check(p, "constraint"); err != nil {
				return proven, err
			}
			// keep the path feasible
			if sol.Check(p.n) != Sat {
				tb.NoSimp = true
				p = pair{tb.Not(p.s), tb.Not(p.n)}
				tb.NoSimp = false
				if sol.Check(p.n) != Sat {
					continue
				}
			}
			sol.Assert(p.n)
			tb.Refine(p.s)
		}
		for e := 0; e < 6; e++ {
			if err := check(gen(3), "expression"); err != nil {
				return proven, err
			}
			if err := check(genBool(3), "comparison"); err != nil {
				return proven, err
			}
		}
	}
	return proven, nil
}
