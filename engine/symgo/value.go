package symgo

import (
	"fmt"
	"go/types"
	"strings"

	"golang.org/x/tools/go/ssa"
)

// Values ("boxed" as in ssa/interp):
//
//   *Term              integers of every kind (constant or symbolic, width from the static type)
//                      and symbolic booleans (w == 0)
//   bool               concrete booleans
//   float64, float32   concrete floats
//   string             fully concrete strings
//   *SymStr            strings of concrete length with at least one symbolic byte
//   []value            slices
//   array, structure   arrays / structs (copied on load/store)
//   *value             pointers
//   iface              interfaces
//   *Map, *Chan        maps, channels
//   *ssa.Function, *ssa.Builtin, *closure, *nativeFn   functions
//   tuple              multiple results
//   iter               range iterators
type value = interface{}

type tuple []value
type array []value
type structure []value

type iface struct {
	t types.Type
	v value
}

type closure struct {
	Fn  *ssa.Function
	Env []value
}

// nativeFn is a function value implemented by the engine.
type nativeFn struct {
	name string
	f    func(fr *frame, args []value) value
}

type bad struct{}

// SymStr is a string of concrete length whose bytes are 8-bit terms.
type SymStr struct {
	b []*Term
}

type iter interface {
	next(fr *frame) tuple
}

// ---- type helpers ----

func intInfo(t types.Type) (w uint8, signed bool, ok bool) {
	b, isB := t.Underlying().(*types.Basic)
	if !isB {
		return 0, false, false
	}
	switch b.Kind() {
	case types.Int, types.Int64, types.UntypedInt:
		return 64, true, true
	case types.Int8:
		return 8, true, true
	case types.Int16:
		return 16, true, true
	case types.Int32, types.UntypedRune:
		return 32, true, true
	case types.Uint, types.Uint64, types.Uintptr:
		return 64, false, true
	case types.Uint8:
		return 8, false, true
	case types.Uint16:
		return 16, false, true
	case types.Uint32:
		return 32, false, true
	}
	return 0, false, false
}

func isString(t types.Type) bool {
	b, ok := t.Underlying().(*types.Basic)
	return ok && b.Info()&types.IsString != 0
}

func isFloat(t types.Type) bool {
	b, ok := t.Underlying().(*types.Basic)
	return ok && b.Info()&types.IsFloat != 0
}

func isBool(t types.Type) bool {
	b, ok := t.Underlying().(*types.Basic)
	return ok && b.Info()&types.IsBoolean != 0
}

func deref(t types.Type) types.Type {
	if p, ok := t.Underlying().(*types.Pointer); ok {
		return p.Elem()
	}
	panic(engineError{"deref of non-pointer type " + t.String()})
}

// zero returns the zero value of type t.
func zero(t types.Type) value {
	switch t := t.(type) {
	case *types.Basic:
		if t.Kind() == types.UntypedNil {
			panic("untyped nil has no zero value")
		}
		if w, _, ok := intInfo(t); ok {
			return K(w, 0)
		}
		switch t.Kind() {
		case types.Bool, types.UntypedBool:
			return false
		case types.Float32:
			return float32(0)
		case types.Float64, types.UntypedFloat:
			return float64(0)
		case types.String, types.UntypedString:
			return ""
		case types.UnsafePointer:
			return (*value)(nil)
		case types.Complex64, types.Complex128:
			return complex128(0)
		}
		panic(engineError{fmt.Sprint("zero for unexpected basic type: ", t)})
	case *types.Pointer:
		return (*value)(nil)
	case *types.Array:
		a := make(array, t.Len())
		for i := range a {
			a[i] = zero(t.Elem())
		}
		return a
	case *types.Named, *types.Alias:
		return zero(t.Underlying())
	case *types.Interface:
		return iface{}
	case *types.Slice:
		return []value(nil)
	case *types.Struct:
		s := make(structure, t.NumFields())
		for i := range s {
			s[i] = zero(t.Field(i).Type())
		}
		return s
	case *types.Tuple:
		if t.Len() == 1 {
			return zero(t.At(0).Type())
		}
		s := make(tuple, t.Len())
		for i := range s {
			s[i] = zero(t.At(i).Type())
		}
		return s
	case *types.Chan:
		return (*Chan)(nil)
	case *types.Map:
		return (*Map)(nil)
	case *types.Signature:
		return (*ssa.Function)(nil)
	case *types.TypeParam:
		panic(engineError{"zero of type parameter (generic not instantiated)"})
	}
	panic(engineError{fmt.Sprint("zero: unexpected type: ", t)})
}

// copyVal returns a copy of v (deep for arrays and structs).
func copyVal(v value) value {
	switch v := v.(type) {
	case array:
		a := make(array, len(v))
		for i := range v {
			a[i] = copyVal(v[i])
		}
		return a
	case structure:
		a := make(structure, len(v))
		for i := range v {
			a[i] = copyVal(v[i])
		}
		return a
	}
	return v
}

func load(addr *value) value { return copyVal(*addr) }

func store(addr *value, v value) {
	// in-place for aggregates so that interior pointers stay valid
	switch v := v.(type) {
	case array:
		if dst, ok := (*addr).(array); ok && len(dst) == len(v) {
			for i := range v {
				storeInto(&dst[i], v[i])
			}
			return
		}
	case structure:
		if dst, ok := (*addr).(structure); ok && len(dst) == len(v) {
			for i := range v {
				storeInto(&dst[i], v[i])
			}
			return
		}
	}
	*addr = copyVal(v)
}

func storeInto(addr *value, v value) { store(addr, v) }

// ---- strings ----

func strLen(v value) int {
	switch s := v.(type) {
	case string:
		return len(s)
	case *SymStr:
		return len(s.b)
	}
	panic(engineError{fmt.Sprintf("strLen of %T", v)})
}

func strBytes(v value) []*Term {
	switch s := v.(type) {
	case string:
		b := make([]*Term, len(s))
		for i := 0; i < len(s); i++ {
			b[i] = K(8, uint64(s[i]))
		}
		return b
	case *SymStr:
		return s.b
	}
	panic(engineError{fmt.Sprintf("strBytes of %T", v)})
}

// mkStr builds a string value from byte terms (collapsing to a Go string when concrete).
func mkStr(b []*Term) value {
	for _, t := range b {
		if t.op != OpConst {
			c := make([]*Term, len(b))
			copy(c, b)
			return &SymStr{c}
		}
	}
	bs := make([]byte, len(b))
	for i, t := range b {
		bs[i] = byte(t.val)
	}
	return string(bs)
}

func isConcreteStr(v value) (string, bool) {
	s, ok := v.(string)
	return s, ok
}

// describe renders a value for diagnostics.
func describe(v value) string {
	switch v := v.(type) {
	case nil:
		return "<nil>"
	case *Term:
		if v.IsConst() {
			if v.w == 0 {
				return fmt.Sprint(v.val == 1)
			}
			return fmt.Sprint(v.S())
		}
		return "sym:" + v.String()
	case string:
		return fmt.Sprintf("%q", v)
	case *SymStr:
		var sb strings.Builder
		sb.WriteString("symstr[")
		for _, t := range v.b {
			if t.IsConst() {
				sb.WriteByte(byte(t.val))
			} else {
				sb.WriteString("?")
			}
		}
		sb.WriteString("]")
		return sb.String()
	case iface:
		if v.t == nil {
			return "nil-iface"
		}
		return fmt.Sprintf("iface(%s: %s)", v.t, describe(v.v))
	case structure:
		var p []string
		for _, x := range v {
			p = append(p, describe(x))
		}
		return "{" + strings.Join(p, ", ") + "}"
	case array:
		var p []string
		for _, x := range v {
			p = append(p, describe(x))
		}
		return "[" + strings.Join(p, ", ") + "]"
	case []value:
		var p []string
		for _, x := range v {
			p = append(p, describe(x))
		}
		return "[]{" + strings.Join(p, ", ") + "}"
	case *value:
		if v == nil {
			return "nil-ptr"
		}
		return "&" + describe(*v)
	case tuple:
		var p []string
		for _, x := range v {
			p = append(p, describe(x))
		}
		return "(" + strings.Join(p, ", ") + ")"
	}
	return fmt.Sprintf("%T(%v)", v, v)
}

// ---- maps ----

type mapEntry struct {
	k, v    value
	deleted bool
}

// Map is an insertion-ordered map with structural keys.
type Map struct {
	keyT    types.Type
	entries []*mapEntry
	idx     map[string]*mapEntry // concrete keys only
	n       int
	hasSym  bool
}

func newMap(keyT types.Type) *Map {
	return &Map{keyT: keyT, idx: map[string]*mapEntry{}}
}

// concreteKey returns a canonical string for a fully concrete key.
func concreteKey(v value) (string, bool) {
	switch v := v.(type) {
	case *Term:
		if v.IsConst() {
			return fmt.Sprintf("i%d:%d", v.w, v.val), true
		}
		return "", false
	case bool:
		return fmt.Sprint("b", v), true
	case string:
		return "s" + v, true
	case *SymStr:
		return "", false
	case float64:
		return fmt.Sprint("f", v), true
	case *value:
		return fmt.Sprintf("p%p", v), true
	case *Chan:
		return fmt.Sprintf("c%p", v), true
	case iface:
		if v.t == nil {
			return "nil", true
		}
		k, ok := concreteKey(v.v)
		return "I" + v.t.String() + "|" + k, ok
	case structure:
		var sb strings.Builder
		sb.WriteString("S{")
		for _, f := range v {
			k, ok := concreteKey(f)
			if !ok {
				return "", false
			}
			fmt.Fprintf(&sb, "%d:%s,", len(k), k)
		}
		return sb.String(), true
	case array:
		var sb strings.Builder
		sb.WriteString("A{")
		for _, f := range v {
			k, ok := concreteKey(f)
			if !ok {
				return "", false
			}
			fmt.Fprintf(&sb, "%d:%s,", len(k), k)
		}
		return sb.String(), true
	}
	panic(engineError{fmt.Sprintf("unsupported map key %T", v)})
}

func (m *Map) find(fr *frame, k value) *mapEntry {
	if m == nil {
		return nil
	}
	if ck, ok := concreteKey(k); ok && !m.hasSym {
		return m.idx[ck]
	}
	// structural comparison with forking
	for _, e := range m.entries {
		if e.deleted {
			continue
		}
		if fr.w.branchV(equals(fr, m.keyT, e.k, k)) {
			return e
		}
	}
	return nil
}

func (m *Map) lookup(fr *frame, k value) (value, bool) {
	if e := m.find(fr, k); e != nil {
		return e.v, true
	}
	return nil, false
}

func (m *Map) insert(fr *frame, k, v value) {
	if m == nil {
		panic(targetPanic{v: "assignment to entry in nil map"})
	}
	if e := m.find(fr, k); e != nil {
		e.v = v
		return
	}
	e := &mapEntry{k: k, v: v}
	m.entries = append(m.entries, e)
	m.n++
	if ck, ok := concreteKey(k); ok {
		m.idx[ck] = e
	} else {
		m.hasSym = true
	}
}

func (m *Map) remove(fr *frame, k value) {
	if m == nil {
		return
	}
	if e := m.find(fr, k); e != nil {
		e.deleted = true
		m.n--
		if ck, ok := concreteKey(e.k); ok {
			delete(m.idx, ck)
		}
		// compact
		out := m.entries[:0]
		for _, x := range m.entries {
			if !x.deleted {
				out = append(out, x)
			}
		}
		m.entries = out
	}
}

func (m *Map) length() int {
	if m == nil {
		return 0
	}
	return m.n
}

type mapIter struct {
	ents []*mapEntry
	i    int
}

func (it *mapIter) next(fr *frame) tuple {
	for it.i < len(it.ents) {
		e := it.ents[it.i]
		it.i++
		if e.deleted {
			continue
		}
		return tuple{true, e.k, e.v}
	}
	return tuple{false, nil, nil}
}

// ---- channels (driven by the engine scheduler, see sched.go) ----

type Chan struct {
	buf    []value
	cap    int
	closed bool
	elemT  types.Type
	ticker bool
}
