package symgo

import (
	"fmt"
	"strings"
)

// A small in-engine file system (path -> bytes) behind the os functions klog's
// app layer uses.  It models what matters for atomicity properties: ReadFile,
// WriteFile (truncating), OpenFile with O_CREATE / O_TRUNC / O_APPEND / O_EXCL
// semantics and positional writes, Create, Rename, Remove, Stat, MkdirAll.
// File-system FAILURES (permissions, full disk) are not modelled.

const (
	oWRONLY = 0x1
	oRDWR   = 0x2
	oCREATE = 0x40
	oEXCL   = 0x80
	oTRUNC  = 0x200
	oAPPEND = 0x400
)

type vfsFile struct {
	path   string
	pos    int
	flags  int64
	closed bool
}

type vfs struct {
	files    map[string][]*Term
	notExist map[*value]bool // error values that mean "does not exist"
	writes   int
}

func (w *Worker) fs() *vfs {
	if w.vfs == nil {
		w.vfs = &vfs{files: map[string][]*Term{}, notExist: map[*value]bool{}}
	}
	return w.vfs
}

func (fr *frame) vfsPath(v value) string {
	s, ok := v.(string)
	if !ok {
		panic(engineError{"bound: symbolic file path"})
	}
	return s
}

func (fr *frame) vfsNotExistErr(op, path string) value {
	e := fr.w.eng.newError(fr, op+" "+path+": no such file or directory")
	if it, ok := e.(iface); ok {
		if p, ok := it.v.(*value); ok {
			fr.w.fs().notExist[p] = true
		}
	}
	return e
}

func registerVFS(e *Engine) {
	reg := func(name string, f intrinsicFn) { e.intrinsics[name] = f }
	reg("os.ReadFile", func(fr *frame, a []value) value {
		p := fr.vfsPath(a[0])
		b, ok := fr.w.fs().files[p]
		if !ok {
			return tuple{[]value(nil), fr.vfsNotExistErr("open", p)}
		}
		out := make([]value, len(b))
		for i, t := range b {
			out[i] = t
		}
		return tuple{out, iface{}}
	})
	reg("os.WriteFile", func(fr *frame, a []value) value {
		p := fr.vfsPath(a[0])
		fr.w.fs().files[p] = append([]*Term{}, termsOf(a[1])...)
		fr.w.fs().writes++
		return iface{}
	})
	open := func(fr *frame, p string, flags int64) value {
		fs := fr.w.fs()
		_, exists := fs.files[p]
		if !exists {
			if flags&oCREATE == 0 {
				return tuple{(*value)(nil), fr.vfsNotExistErr("open", p)}
			}
			fs.files[p] = []*Term{}
		} else if flags&oCREATE != 0 && flags&oEXCL != 0 {
			return tuple{(*value)(nil), fr.w.eng.newError(fr, "open "+p+": file exists")}
		}
		if flags&oTRUNC != 0 && flags&(oWRONLY|oRDWR) != 0 {
			fs.files[p] = []*Term{}
			fs.writes++
		}
		var cell value = &vfsFile{path: p, flags: flags}
		return tuple{&cell, iface{}}
	}
	reg("os.OpenFile", func(fr *frame, a []value) value {
		return open(fr, fr.vfsPath(a[0]), fr.concInt(a[1], "open flags"))
	})
	reg("os.Create", func(fr *frame, a []value) value {
		return open(fr, fr.vfsPath(a[0]), oRDWR|oCREATE|oTRUNC)
	})
	reg("os.Open", func(fr *frame, a []value) value { return open(fr, fr.vfsPath(a[0]), 0) })
	file := func(fr *frame, v value) *vfsFile {
		p, ok := v.(*value)
		if !ok || p == nil {
			fpanic(fr, "invalid memory address or nil pointer dereference (nil *os.File)")
		}
		f, ok := (*p).(*vfsFile)
		if !ok {
			panic(engineError{"os.File that was not opened through the virtual file system"})
		}
		return f
	}
	write := func(fr *frame, f *vfsFile, data []*Term) value {
		if f.closed {
			return tuple{kInt(0), fr.w.eng.newError(fr, "write "+f.path+": file already closed")}
		}
		if f.flags&(oWRONLY|oRDWR) == 0 {
			return tuple{kInt(0), fr.w.eng.newError(fr, "write "+f.path+": bad file descriptor")}
		}
		fs := fr.w.fs()
		cur := fs.files[f.path]
		if f.flags&oAPPEND != 0 {
			f.pos = len(cur)
		}
		for len(cur) < f.pos {
			cur = append(cur, K(8, 0))
		}
		for i, t := range data {
			if f.pos+i < len(cur) {
				cur[f.pos+i] = t
			} else {
				cur = append(cur, t)
			}
		}
		f.pos += len(data)
		fs.files[f.path] = cur
		fs.writes++
		return tuple{kInt(len(data)), iface{}}
	}
	reg("(*os.File).Write", func(fr *frame, a []value) value { return write(fr, file(fr, a[0]), termsOf(a[1])) })
	reg("(*os.File).WriteString", func(fr *frame, a []value) value { return write(fr, file(fr, a[0]), strBytes(a[1])) })
	reg("(*os.File).Sync", func(fr *frame, a []value) value { file(fr, a[0]); return iface{} })
	reg("(*os.File).Close", func(fr *frame, a []value) value {
		f := file(fr, a[0])
		if f.closed {
			return fr.w.eng.newError(fr, "close "+f.path+": file already closed")
		}
		f.closed = true
		return iface{}
	})
	reg("(*os.File).Name", func(fr *frame, a []value) value { return file(fr, a[0]).path })
	reg("(*os.File).Truncate", func(fr *frame, a []value) value {
		f := file(fr, a[0])
		n := int(fr.concInt(a[1], "truncate size"))
		cur := fr.w.fs().files[f.path]
		for len(cur) < n {
			cur = append(cur, K(8, 0))
		}
		fr.w.fs().files[f.path] = cur[:n]
		fr.w.fs().writes++
		return iface{}
	})
	reg("(*os.File).Seek", func(fr *frame, a []value) value {
		f := file(fr, a[0])
		off := int(fr.concInt(a[1], "seek offset"))
		switch fr.concInt(a[2], "seek whence") {
		case 0:
			f.pos = off
		case 1:
			f.pos += off
		case 2:
			f.pos = len(fr.w.fs().files[f.path]) + off
		}
		return tuple{kInt(f.pos), iface{}}
	})
	reg("os.Truncate", func(fr *frame, a []value) value {
		p := fr.vfsPath(a[0])
		cur, ok := fr.w.fs().files[p]
		if !ok {
			return fr.vfsNotExistErr("truncate", p)
		}
		n := int(fr.concInt(a[1], "truncate size"))
		for len(cur) < n {
			cur = append(cur, K(8, 0))
		}
		fr.w.fs().files[p] = cur[:n]
		fr.w.fs().writes++
		return iface{}
	})
	reg("os.Rename", func(fr *frame, a []value) value {
		from, to := fr.vfsPath(a[0]), fr.vfsPath(a[1])
		b, ok := fr.w.fs().files[from]
		if !ok {
			return fr.vfsNotExistErr("rename", from)
		}
		fr.w.fs().files[to] = b
		delete(fr.w.fs().files, from)
		fr.w.fs().writes++
		return iface{}
	})
	reg("os.Remove", func(fr *frame, a []value) value {
		p := fr.vfsPath(a[0])
		if _, ok := fr.w.fs().files[p]; !ok {
			return fr.vfsNotExistErr("remove", p)
		}
		delete(fr.w.fs().files, p)
		fr.w.fs().writes++
		return iface{}
	})
	reg("os.Stat", func(fr *frame, a []value) value {
		p := fr.vfsPath(a[0])
		if _, ok := fr.w.fs().files[p]; !ok {
			// directories: any strict prefix of an existing file counts as existing
			for k := range fr.w.fs().files {
				if strings.HasPrefix(k, strings.TrimSuffix(p, "/")+"/") {
					return tuple{iface{}, iface{}}
				}
			}
			return tuple{iface{}, fr.vfsNotExistErr("stat", p)}
		}
		return tuple{iface{}, iface{}}
	})
	reg("os.MkdirAll", func(fr *frame, a []value) value { return iface{} })
	reg("os.Mkdir", func(fr *frame, a []value) value { return iface{} })
	reg("os.Getwd", func(fr *frame, a []value) value { return tuple{"/zzwork", iface{}} })
	reg("os.IsNotExist", func(fr *frame, a []value) value {
		it := a[0].(iface)
		if it.t == nil {
			return false
		}
		if p, ok := it.v.(*value); ok {
			return fr.w.fs().notExist[p]
		}
		return false
	})
	// harness access
	reg(apiPkg+".FSWrite", func(fr *frame, a []value) value {
		fr.w.fs().files[fr.vfsPath(a[0])] = append([]*Term{}, strBytes(a[1])...)
		return nil
	})
	reg(apiPkg+".FSRead", func(fr *frame, a []value) value {
		b, ok := fr.w.fs().files[fr.vfsPath(a[0])]
		if !ok {
			return tuple{"", false}
		}
		return tuple{mkStr(b), true}
	})
	reg(apiPkg+".FSReset", func(fr *frame, a []value) value {
		fr.w.vfs = nil
		return nil
	})
	// the wall clock of the real context: a fixed instant (harnesses that go through
	// app.NewContext pass explicit --date/--time values)
	reg("time.now", func(fr *frame, a []value) value {
		return tuple{K(64, 1577880000), K(32, 0), K(64, 1)} // 2020-01-01 12:00:00 UTC
	})
	reg("time.runtimeNow", func(fr *frame, a []value) value {
		return tuple{K(64, 1577880000), K(32, 0), K(64, 1)}
	})
}

var _ = fmt.Sprint
