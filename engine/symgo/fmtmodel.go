package symgo

import (
	"fmt"
	"go/types"
	"strings"
	"unicode/utf8"
)

// fmt model: Sprintf/Sprint/Errorf for the verbs and flags klog uses
// (%d %v %s %q %c %x with flags '-', '0' and a width, %%).

func registerFmt(e *Engine) {
	reg := func(name string, f intrinsicFn) { e.intrinsics[name] = f }
	reg("fmt.Sprintf", func(fr *frame, a []value) value {
		return fr.sprintf(a[0], a[1].([]value))
	})
	reg("fmt.Sprint", func(fr *frame, a []value) value {
		return fr.sprint(a[0].([]value), false)
	})
	reg("fmt.Sprintln", func(fr *frame, a []value) value {
		return fr.sprint(a[0].([]value), true)
	})
	reg("fmt.Errorf", func(fr *frame, a []value) value {
		s := fr.sprintf(a[0], a[1].([]value))
		return fr.w.eng.newError(fr, s)
	})
	for _, n := range []string{"fmt.Println", "fmt.Printf", "fmt.Print"} {
		reg(n, func(fr *frame, a []value) value { return tuple{kInt(0), iface{}} })
	}
	reg("fmt.Fprintf", func(fr *frame, a []value) value { return tuple{kInt(0), iface{}} })
	reg("fmt.Fprintln", func(fr *frame, a []value) value { return tuple{kInt(0), iface{}} })
	reg("fmt.Fprint", func(fr *frame, a []value) value { return tuple{kInt(0), iface{}} })
}

// newError builds an error value through the real errors.New.
func (e *Engine) newError(fr *frame, msg value) value {
	pkg := e.Prog.ImportedPackage("errors")
	return fr.w.call(fr, 0, pkg.Func("New"), []value{msg})
}

func padBytes(b []*Term, width int, left bool, padc byte, runes int) []*Term {
	if runes >= width {
		return b
	}
	pad := make([]*Term, width-runes)
	for i := range pad {
		pad[i] = K(8, uint64(padc))
	}
	if left {
		return append(append([]*Term{}, b...), pad...)
	}
	return append(pad, b...)
}

func (fr *frame) runeCount(b []*Term) int {
	n := 0
	for p := 0; p < len(b); {
		_, sz := fr.decodeRune(b[p:])
		p += sz
		n++
	}
	return n
}

// fmtArg renders one operand for verb (one of v d s q c x).
func (fr *frame) fmtArg(verb byte, arg value, width int, hasWidth, zero, left bool) []*Term {
	itf, ok := arg.(iface)
	if !ok {
		panic(engineError{fmt.Sprintf("fmt model: non-interface operand %T", arg)})
	}
	if itf.t == nil {
		s := "<nil>"
		if verb != 'v' {
			s = "%!" + string(verb) + "(<nil>)"
		}
		return padBytes(strBytes(s), width, left, ' ', len(s))
	}
	// Error() / String() methods (handleMethods) for %v %s %q
	if verb == 'v' || verb == 's' || verb == 'q' {
		if m := fr.findMethod(itf.t, "Error"); m != nil {
			if sig := m.Signature; sig.Params().Len() == 0 && sig.Results().Len() == 1 && isString(sig.Results().At(0).Type()) {
				s := fr.w.call(fr, 0, m, []value{itf.v})
				return fr.fmtString(verb, s, width, left)
			}
		}
		if m := fr.findMethod(itf.t, "String"); m != nil {
			if sig := m.Signature; sig.Params().Len() == 0 && sig.Results().Len() == 1 && isString(sig.Results().At(0).Type()) {
				s := fr.w.call(fr, 0, m, []value{itf.v})
				return fr.fmtString(verb, s, width, left)
			}
		}
	}
	ut := itf.t.Underlying()
	if _, signed, ok := intInfo(ut); ok {
		t := itf.v.(*Term)
		switch verb {
		case 'd', 'v':
			w := width
			s := fr.formatInt(t, signed, w, zero && !left, left)
			return strBytes(s)
		case 'c':
			r := t
			if r.w < 32 {
				r = fr.w.tb.Zext(r, 32)
			} else if r.w > 32 {
				r = fr.w.tb.Extract(r, 0, 32)
			}
			b := fr.encodeRune(r)
			return padBytes(b, width, left, ' ', 1)
		case 's':
			panic(engineError{"fmt model: %s of integer"})
		}
	}
	if isString(ut) {
		switch verb {
		case 'v', 's', 'q':
			return fr.fmtString(verb, itf.v, width, left)
		}
	}
	if isBool(ut) {
		if verb == 'v' || verb == 't' {
			switch b := itf.v.(type) {
			case bool:
				s := fmt.Sprint(b)
				return padBytes(strBytes(s), width, left, ' ', len(s))
			case *Term:
				if fr.w.branch(b) {
					return padBytes(strBytes("true"), width, left, ' ', 4)
				}
				return padBytes(strBytes("false"), width, left, ' ', 5)
			}
		}
	}
	if isFloat(ut) {
		if f, ok := itf.v.(float64); ok {
			format := "%" + string(verb)
			s := fmt.Sprintf(format, f)
			return padBytes(strBytes(s), width, left, ' ', len(s))
		}
	}
	panic(engineError{fmt.Sprintf("fmt model: unsupported operand %s for %%%c", itf.t, verb)})
}

func (fr *frame) fmtString(verb byte, s value, width int, left bool) []*Term {
	if verb == 'q' {
		cs, ok := s.(string)
		if !ok {
			panic(engineError{"bound: %q of a symbolic string"})
		}
		q := fmt.Sprintf("%q", cs)
		return padBytes(strBytes(q), width, left, ' ', utf8.RuneCountInString(q))
	}
	b := strBytes(s)
	if width == 0 {
		return b
	}
	return padBytes(b, width, left, ' ', fr.runeCount(b))
}

func (fr *frame) findMethod(t types.Type, name string) *ssaFunc {
	ms := fr.w.eng.Prog.MethodSets.MethodSet(t)
	for i := 0; i < ms.Len(); i++ {
		sel := ms.At(i)
		if sel.Obj().Name() == name && sel.Obj().Exported() {
			return fr.w.eng.Prog.MethodValue(sel)
		}
	}
	return nil
}

func (fr *frame) sprintf(format value, args []value) value {
	f, ok := format.(string)
	var symAt map[int]*Term
	if !ok {
		// A format string with symbolic bytes (user text spliced into the format).  Bytes
		// that are not '%' are literals; a feasible '%' cannot be modelled - the path ends
		// as an engine error whose probe values (with the '%') are replayed natively.
		fb := strBytes(format)
		raw := make([]byte, len(fb))
		symAt = map[int]*Term{}
		for i, t := range fb {
			if t.IsConst() {
				raw[i] = byte(t.val)
				continue
			}
			if fr.w.branch(fr.w.tb.Cmp(OpEq, t, K(8, '%'))) {
				panic(engineError{"fmt model: '%' from a symbolic byte in the format string"})
			}
			raw[i] = 0x01
			symAt[i] = t
		}
		f = string(raw)
	}
	var out []*Term
	argi := 0
	for i := 0; i < len(f); {
		c := f[i]
		if c != '%' {
			if t := symAt[i]; t != nil {
				out = append(out, t)
			} else {
				out = append(out, K(8, uint64(c)))
			}
			i++
			continue
		}
		i++
		if i >= len(f) {
			out = append(out, strBytes("%!(NOVERB)")...)
			break
		}
		left, zero := false, false
		for i < len(f) && (f[i] == '-' || f[i] == '0' || f[i] == '+' || f[i] == ' ' || f[i] == '#') {
			switch f[i] {
			case '-':
				left = true
			case '0':
				zero = true
			default:
				panic(engineError{"fmt model: flag " + string(f[i])})
			}
			i++
		}
		width, hasWidth := 0, false
		for i < len(f) && f[i] >= '0' && f[i] <= '9' {
			width = width*10 + int(f[i]-'0')
			hasWidth = true
			i++
		}
		if i < len(f) && (f[i] == '.' || f[i] == '*' || f[i] == '[') {
			panic(engineError{"fmt model: precision/star/index"})
		}
		if i >= len(f) {
			out = append(out, strBytes("%!(NOVERB)")...)
			break
		}
		verb := f[i]
		i++
		if verb == '%' {
			out = append(out, K(8, '%'))
			continue
		}
		switch verb {
		case 'v', 'd', 's', 'q', 'c', 't':
		default:
			panic(engineError{"fmt model: verb %" + string(verb)})
		}
		if argi >= len(args) {
			out = append(out, strBytes("%!"+string(verb)+"(MISSING)")...)
			continue
		}
		out = append(out, fr.fmtArg(verb, args[argi], width, hasWidth, zero, left)...)
		argi++
	}
	if argi < len(args) {
		panic(engineError{"fmt model: EXTRA operands"})
	}
	return mkStr(out)
}

func (fr *frame) sprint(args []value, ln bool) value {
	var out []*Term
	prevString := false
	for i, a := range args {
		itf := a.(iface)
		isStr := itf.t != nil && isString(itf.t.Underlying())
		if ln {
			if i > 0 {
				out = append(out, K(8, ' '))
			}
		} else if i > 0 && !isStr && !prevString {
			out = append(out, K(8, ' '))
		}
		out = append(out, fr.fmtArg('v', a, 0, false, false, false)...)
		prevString = isStr
	}
	if ln {
		out = append(out, K(8, '\n'))
	}
	return mkStr(out)
}

var _ = strings.Repeat
