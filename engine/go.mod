module symgo

go 1.24

require golang.org/x/tools v0.29.0
