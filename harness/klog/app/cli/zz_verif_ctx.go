package cli

import (
	gotime "time"

	"github.com/jotaen/klog/klog"
	"github.com/jotaen/klog/klog/app"
	"github.com/jotaen/klog/klog/app/cli/command"
	tf "github.com/jotaen/klog/klog/app/cli/terminalformat"
	"github.com/jotaen/klog/klog/parser"
	"github.com/jotaen/klog/klog/parser/reconciling"
)

// zzContext is the harness implementation of app.Context: same shape as the
// repository's own TestingContext (which lives in a _test.go file), but the
// target file is held as TEXT and re-parsed by every command with the real
// serial parser, exactly like app.context.ReconcileFile does.
type zzContext struct {
	now        gotime.Time
	fileText   string // current contents of the target file
	writes     int    // number of writes to the target file
	printed    string
	styler     tf.Styler
	serialiser app.TextSerialiser
	config     *app.Config
	bookmarks  app.BookmarksCollection
	clock      []gotime.Time // scripted clock readings (used one per Now() call, the last one repeats)
	clockPos   int
	stopAfter  int // Print calls with the cursor-reset sequence before the repeat loop is cut (0 = never)
	resets     int
}

// zzStopLoop is the sentinel with which the harness cuts the endless `klog pause` loop.
type zzStopLoop struct{}

func newZZContext(fileText string, now gotime.Time) *zzContext {
	config := app.NewDefaultConfig(tf.COLOUR_THEME_NO_COLOUR)
	styler := tf.NewStyler(tf.COLOUR_THEME_NO_COLOUR)
	return &zzContext{
		now: now, fileText: fileText, styler: styler,
		serialiser: app.NewSerialiser(styler, false), config: &config,
		bookmarks: app.NewEmptyBookmarksCollection(),
	}
}

func (ctx *zzContext) Print(s string) {
	if ctx.stopAfter > 0 && s == "\033[H\033[J" {
		ctx.resets++
		if ctx.resets > ctx.stopAfter {
			panic(zzStopLoop{})
		}
	}
	ctx.printed += s
}
func (ctx *zzContext) ReadLine() (string, app.Error) { return "", nil }
func (ctx *zzContext) KlogConfigFolder() app.File    { return app.NewFileOrPanic("/tmp/zz-klog-config") }
func (ctx *zzContext) Meta() app.Meta                { return app.Meta{Version: "v0.0", SrcHash: "abc1234"} }
func (ctx *zzContext) Now() gotime.Time {
	if len(ctx.clock) == 0 {
		return ctx.now
	}
	t := ctx.clock[ctx.clockPos]
	if ctx.clockPos < len(ctx.clock)-1 {
		ctx.clockPos++
	}
	return t
}
func (ctx *zzContext) Execute(_ command.Command) app.Error { return nil }
func (ctx *zzContext) Editors() (string, []command.Command) {
	return "", nil
}
func (ctx *zzContext) FileExplorers() []command.Command { return nil }
func (ctx *zzContext) Serialise() (tf.Styler, app.TextSerialiser) {
	return ctx.styler, ctx.serialiser
}
func (ctx *zzContext) ConfigureSerialisation(fn func(tf.Styler, bool) (tf.Styler, bool)) {
	styler, decimal := fn(ctx.styler, ctx.serialiser.DecimalDuration)
	ctx.styler = styler
	ctx.serialiser = app.NewSerialiser(styler, decimal)
}
func (ctx *zzContext) Debug(_ func())     {}
func (ctx *zzContext) Config() app.Config { return *ctx.config }
func (ctx *zzContext) ReadBookmarks() (app.BookmarksCollection, app.Error) {
	return ctx.bookmarks, nil
}
func (ctx *zzContext) ManipulateBookmarks(_ func(app.BookmarksCollection) app.Error) app.Error {
	return nil
}

func (ctx *zzContext) ReadInputs(_ ...app.FileOrBookmarkName) ([]klog.Record, app.Error) {
	records, _, errs := parser.NewSerialParser().Parse(ctx.fileText)
	if errs != nil {
		return nil, app.NewParserErrors(errs)
	}
	return records, nil
}

func (ctx *zzContext) RetrieveTargetFile(fileArg app.FileOrBookmarkName) (app.FileWithContents, app.Error) {
	return app.NewFileWithContents("/tmp/zz-target.klg", ctx.fileText)
}

// ReconcileFile mirrors app.context.ReconcileFile: parse -> ApplyReconciler -> only then write.
func (ctx *zzContext) ReconcileFile(_ app.FileOrBookmarkName, creators []reconciling.Creator, reconcile ...reconciling.Reconcile) (*reconciling.Result, app.Error) {
	records, blocks, errs := parser.NewSerialParser().Parse(ctx.fileText)
	if errs != nil {
		return nil, app.NewParserErrors(errs)
	}
	result, aErr := app.ApplyReconciler(records, blocks, creators, reconcile...)
	if aErr != nil {
		return nil, aErr
	}
	ctx.fileText = result.AllSerialised
	ctx.writes++
	return result, nil
}
