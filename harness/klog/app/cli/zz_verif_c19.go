package cli

import (
	"github.com/jotaen/klog/klog/app"
	tf "github.com/jotaen/klog/klog/app/cli/terminalformat"
	zz "github.com/jotaen/klog/klog/zzverif"
)

// zzBookmarkName: a user-supplied bookmark name - optional '@' prefixes and up to two
// symbolic printable bytes (which may themselves be '@').  The normalised name is
// computed independently of klog: leading '@' characters are the prefix and are
// dropped, the empty name is `default`.
func zzBookmarkName(id string, maxLen int) (arg string, normal string) {
	body := zz.String(id, zz.Choose(maxLen+1))
	for i := 0; i < len(body); i++ {
		zz.Assume(zz.And(body[i] > ' ', body[i] < 0x7f))
	}
	prefix := []string{"", "@", "@@"}[zz.Choose(3)]
	normal = body
	for len(normal) > 0 && normal[0] == '@' {
		normal = normal[1:]
	}
	if normal == "" {
		normal = "default"
	}
	return prefix + body, normal
}

// ZZ_C19_Step: one step of the bookmark database from a stored collection of up to
// two bookmarks (written through the real ManipulateBookmarks on the virtual file
// system): set / unset / clear, then list, info and @name resolution must agree with
// a plain map from normalised name to absolute path.
func ZZ_C19_Step() {
	zz.FSReset()
	ctx := app.NewContext(app.NewFileOrPanic("/tmp/zzverif-fs/cfg"), app.Meta{}, tf.NewStyler(tf.COLOUR_THEME_NO_COLOUR), app.NewDefaultConfig(tf.COLOUR_THEME_NO_COLOUR))
	paths := []string{"/tmp/zzverif-fs/a.klg", "/tmp/zzverif-fs/dir/b.klg", "/tmp/zzverif-fs/c d.klg"}
	for _, p := range paths {
		zz.FSWrite(p, "2020-01-01\n    1h\n")
	}
	// model: parallel slices, later entries override earlier ones
	var names, targets []string
	put := func(n, t string) {
		for i := range names {
			if names[i] == n {
				targets[i] = t
				return
			}
		}
		names, targets = append(names, n), append(targets, t)
	}
	del := func(n string) bool {
		for i := range names {
			if names[i] == n {
				names = append(append([]string{}, names[:i]...), names[i+1:]...)
				targets = append(append([]string{}, targets[:i]...), targets[i+1:]...)
				return true
			}
		}
		return false
	}
	k := zz.Choose(zz.ParamOr("k", 2) + 1)
	for i := 0; i < k; i++ {
		arg, normal := zzBookmarkName("pre", zz.ParamOr("nb", 2))
		err := (&BookmarksSet{File: paths[i], Name: arg}).Run(ctx)
		zz.Assert(err == nil, "set-succeeds")
		put(normal, paths[i])
	}
	arg, normal := zzBookmarkName("op", 2)
	switch zz.Choose(3) {
	case 0:
		err := (&BookmarksSet{File: paths[2], Name: arg}).Run(ctx)
		zz.Assert(err == nil, "set-succeeds")
		put(normal, paths[2])
	case 1:
		before, _ := zz.FSRead("/tmp/zzverif-fs/cfg/bookmarks.json")
		err := (&BookmarksUnset{Name: arg}).Run(ctx)
		existed := del(normal)
		zz.Assert((err == nil) == existed, "unset-fails-iff-unknown-name")
		if err != nil {
			after, _ := zz.FSRead("/tmp/zzverif-fs/cfg/bookmarks.json")
			zz.Assert(after == before, "failed-unset-changes-nothing")
		}
	case 2:
		err := (&BookmarksClear{Yes: true}).Run(ctx)
		zz.Assert(err == nil, "clear-succeeds")
		names, targets = nil, nil
	}
	// read back: the stored database is exactly the model
	bc, rErr := ctx.ReadBookmarks()
	zz.Assert(rErr == nil, "database-can-be-read-back")
	if rErr != nil {
		return
	}
	zz.Observe("count", bc.Count())
	zz.Assert(bc.Count() == len(names), "same-number-of-bookmarks")
	for i := range names {
		b := bc.Get(app.NewName(names[i]))
		zz.Assert(b != nil, "bookmark-present")
		if b != nil {
			zz.Assert(b.Target().Path() == targets[i], "bookmark-target")
		}
	}
	all := bc.All()
	for i := 0; i+1 < len(all); i++ {
		zz.Assert(all[i].Name().Value() < all[i+1].Name().Value(), "list-ordered-by-name")
	}
	// the listed names are exactly the model's names
	zz.Assert(len(all) == len(names), "same-number-of-bookmarks")
	for _, b := range all {
		found := false
		for i := range names {
			if names[i] == b.Name().Value() {
				found = true
				zz.Assert(b.Target().Path() == targets[i], "bookmark-target")
			}
		}
		zz.Assert(found, "listed-name-is-in-model")
	}
	// resolution of @name arguments
	// (the queried name is one of the names used before or a fresh one)
	var q, qNormal string
	switch zz.Choose(3) {
	case 0:
		q, qNormal = arg, normal
	case 1:
		q, qNormal = zzBookmarkName("q", 1)
	case 2:
		if len(names) == 0 {
			zz.Stop()
		}
		q, qNormal = names[0], names[0]
	}
	file, fErr := ctx.RetrieveTargetFile(app.FileOrBookmarkName("@" + q))
	want := ""
	for i := range names {
		if names[i] == qNormal {
			want = targets[i]
		}
	}
	zz.Assert((fErr == nil) == (want != ""), "name-resolves-iff-bookmarked")
	if fErr == nil {
		zz.Assert(file.Path() == want, "name-resolves-to-its-target")
	}
}
