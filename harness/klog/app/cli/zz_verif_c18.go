package cli

import (
	gotime "time"

	"github.com/jotaen/klog/klog/app"
	tf "github.com/jotaen/klog/klog/app/cli/terminalformat"
	zz "github.com/jotaen/klog/klog/zzverif"
)

func zzRunWithTheme(file string, theme tf.ColourTheme, run func(ctx app.Context) app.Error) (string, app.Error) {
	ctx := newZZContext(file, gotime.Date(2020, 1, 2, 12, 0, 0, 0, gotime.UTC))
	ctx.styler = tf.NewStyler(theme)
	ctx.serialiser = app.NewSerialiser(ctx.styler, false)
	err := run(ctx)
	return ctx.printed, err
}

func zzVisibleWidth(line string) int { return len([]rune(tf.StripAllAnsiSequences(line))) }

// ZZ_C18_Styling: every evaluation command under every colour theme prints the
// same text as with styling disabled once SGR sequences are removed; table rows
// have the same visible width.
func ZZ_C18_Styling() {
	// a small file: symbolic summary / tag bytes (full byte range except line breaks), symbolic digits
	sb := zz.String("sum", 2)
	for i := 0; i < 2; i++ {
		zz.Assume(zz.And(sb[i] != '\n', sb[i] != '\r'))
	}
	zz.Assume(zz.And(sb[0] != ' ', sb[0] != '\t')) // summary lines must not start with a blank
	zz.Assume(sb[0] < 0x80 || true)
	dg := zz.String("dg", 1)
	zz.Assume(dg[0] >= '0' && dg[0] <= '9')
	// a tag value that is plain ASCII or non-ASCII letters (styled AND multi-byte in `tags --values`)
	val := []string{"1", "b\u00fc", "\u6771\u4eac"}[zz.Choose(3)]
	file := "2020-01-01 (8h!)\n" + sb + " #tag\n    " + dg + "h #a=" + val + " x\n    -30m\n    8:00 - 9:15 #tag\n\n2020-01-02\n    1" + dg + ":00 - ?\n"
	theme := []tf.ColourTheme{tf.COLOUR_THEME_DARK, tf.COLOUR_THEME_LIGHT, tf.COLOUR_THEME_BASIC}[zz.Choose(3)]
	cmdSel := zz.Param("cmd")
	decimal := zz.Choose(2) == 1 // --decimal
	viaFlag := zz.Choose(2) == 1 // unstyled run: --no-style flag instead of the no_colour scheme
	aggSel := 0
	if cmdSel == 3 {
		aggSel = zz.Choose(5)
	}
	noStyle := false
	run := func(ctx app.Context) app.Error {
		switch cmdSel {
		case 0:
			c := &Print{}
			c.NoStyle = noStyle
			return c.Run(ctx)
		case 1:
			c := &Print{WithTotals: true}
			c.NoStyle = noStyle
			return c.Run(ctx)
		case 2:
			c := &Total{}
			c.Diff = true
			c.Decimal = decimal
			c.NoStyle = noStyle
			return c.Run(ctx)
		case 3:
			c := &Report{}
			c.NoWarn = true // (warnings are printed after the table and are not rows)
			c.Decimal = decimal
			c.NoStyle = noStyle
			c.Diff = true
			c.Fill = true
			c.AggregateBy = []string{"day", "week", "month", "quarter", "year"}[aggSel]
			return c.Run(ctx)
		case 4:
			c := &Tags{Values: true, Count: true}
			c.Decimal = decimal
			c.NoStyle = noStyle
			c.NoWarn = true
			return c.Run(ctx)
		case 5:
			c := &Today{}
			c.Decimal = decimal
			c.NoStyle = noStyle
			c.NoWarn = true
			c.Diff = true
			return c.Run(ctx)
		}
		return nil
	}
	styled, e1 := zzRunWithTheme(file, theme, run)
	plainTheme := tf.COLOUR_THEME_NO_COLOUR
	if viaFlag {
		noStyle = true
		plainTheme = theme
	}
	plain, e2 := zzRunWithTheme(file, plainTheme, run)
	if viaFlag {
		zz.Assert(tf.StripAllAnsiSequences(plain) == plain, "no-style-output-has-no-sgr-sequences")
	}
	zz.Assert((e1 == nil) == (e2 == nil), "same-outcome-with-and-without-styling")
	zz.Assert(tf.StripAllAnsiSequences(styled) == tf.StripAllAnsiSequences(plain), "styling-only-adds-sgr-sequences")
	if cmdSel >= 3 && e1 == nil {
		// tabular output: all rows have the same visible width
		rows := zzSplit(styled)
		w := -1
		for _, r := range rows {
			r = zzStrip(r)
			if r == "" {
				continue
			}
			if w < 0 {
				w = zzVisibleWidth(r)
			}
			zz.Assert(zzVisibleWidth(r) == w, "table-rows-have-equal-visible-width")
		}
	}
}
