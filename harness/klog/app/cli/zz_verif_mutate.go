package cli

import (
	gotime "time"

	"github.com/jotaen/klog/klog"
	"github.com/jotaen/klog/klog/app"
	"github.com/jotaen/klog/klog/parser"
	zz "github.com/jotaen/klog/klog/zzverif"
)

// ---------------------------------------------------------------------------
// Shared machinery of the mutating-command harnesses (C03, C04, C05, C11).
// ---------------------------------------------------------------------------

type zzMut struct {
	doc    interface{ Text() string }
	before string
	model  []parser.ZZRec
	ctx    *zzContext
	eol    string
	today  string // ISO text of the context's "today"
	target int    // index of the record dated today in the model, -1 if absent
	pos    int    // for a new record: index in the model at which it is expected
}

// candidate "today" dates: the generator's record dates plus dates before / between / after them
var zzTodayDates = [][3]int{{2020, 1, 1}, {2020, 1, 2}, {2021, 12, 31}, {2019, 6, 6}, {2020, 6, 6}, {2030, 1, 1}}

func zzIso(y, m, d int) string {
	dt, _ := klog.NewDate(y, m, d)
	return dt.ToString()
}

// zzSetup generates a conforming document of L lines and a context whose clock
// shows one of the candidate dates (path choice) at 12:00.
func zzSetup() *zzMut {
	d := parser.ZZGenDoc(zz.Param("L"), false)
	if !d.Accept() {
		zz.Stop()
	}
	// nd limits the candidate dates (2: first record's date and a date before all records)
	cands := zzTodayDates
	if zz.Param("nd") == 2 {
		cands = [][3]int{{2020, 1, 1}, {2019, 6, 6}}
	} else if zz.Param("nd") == 3 {
		cands = [][3]int{{2020, 1, 1}, {2020, 1, 2}, {2020, 6, 6}}
	}
	t := cands[zz.Choose(len(cands))]
	now := gotime.Date(t[0], gotime.Month(t[1]), t[2], 12, 0, 0, 0, gotime.UTC)
	m := &zzMut{doc: d, before: d.Text(), model: d.Model(), eol: d.EOL(), today: zzIso(t[0], t[1], t[2]), target: -1}
	m.ctx = newZZContext(m.before, now)
	todayDate, _ := klog.NewDate(t[0], t[1], t[2])
	for i, r := range m.model {
		rd, _ := klog.NewDateFromString(r.Date)
		if rd.IsEqualTo(todayDate) && m.target == -1 {
			m.target = i
		}
	}
	// chronological position of a new record dated today (files produced by the generator with <= 3 records are sorted)
	m.pos = 0
	for i, r := range m.model {
		rd, _ := klog.NewDateFromString(r.Date)
		if todayDate.IsAfterOrEqual(rd) {
			m.pos = i + 1
		}
	}
	return m
}

// zzSplit splits text into lines, each including its line ending (independent of klog's line code).
func zzSplit(text string) []string {
	var out []string
	start := 0
	for i := 0; i < len(text); i++ {
		if text[i] == '\n' {
			out = append(out, text[start:i+1])
			start = i + 1
		}
	}
	if start < len(text) {
		out = append(out, text[start:])
	}
	return out
}

func zzStrip(line string) string {
	n := len(line)
	if n > 0 && line[n-1] == '\n' {
		n--
		if n > 0 && line[n-1] == '\r' {
			n--
		}
	}
	return line[:n]
}

func zzEnding(line string) string { return line[len(zzStrip(line)):] }

// zzDiff aligns the line vectors: after = before[:p] ++ mid ++ before[len-s:], where
// midBefore are the lines of `before` between the common prefix and suffix.
func zzDiff(before, after []string) (p int, midBefore, midAfter []string) {
	for p < len(before) && p < len(after) && before[p] == after[p] {
		p++
	}
	s := 0
	for s < len(before)-p && s < len(after)-p && before[len(before)-1-s] == after[len(after)-1-s] {
		s++
	}
	return p, before[p : len(before)-s], after[p : len(after)-s]
}

// zzOnlyInsertion asserts the C03 shape of a pure insertion: all original lines
// survive in order; the added lines form one contiguous block; the only line that
// may change is a final line without line ending, which may gain one.
func zzOnlyInsertion(before, after string) (at int, added []string) {
	b, a := zzSplit(before), zzSplit(after)
	p, mb, ma := zzDiff(b, a)
	if len(mb) == 1 && p == len(b)-1 && zzEnding(mb[0]) == "" && len(ma) >= 1 && zzStrip(ma[0]) == mb[0] && zzEnding(ma[0]) != "" {
		// the former last line gained a line ending
		return p + 1, ma[1:]
	}
	zz.Assert(len(mb) == 0, "original-lines-survive-unchanged")
	return p, ma
}

// zzExpectStyle: indentation and line ending that inserted lines must use (C11).
func (m *zzMut) zzExpectStyle() (indent string, eol string, definite bool) {
	eol = m.eol // the generator uses one line ending for the whole file
	if len(m.model) == 0 {
		return "    ", "\n", true
	}
	if m.target >= 0 && m.model[m.target].Indent != "" {
		return m.model[m.target].Indent, eol, true
	}
	// otherwise: the unanimous style of the records that exhibit one, else 4 spaces
	ind := ""
	unanimous := true
	for _, r := range m.model {
		if r.Indent == "" {
			continue
		}
		if ind == "" {
			ind = r.Indent
		} else if ind != r.Indent {
			unanimous = false
		}
	}
	if ind == "" {
		return "    ", eol, true
	}
	return ind, eol, unanimous
}

// zzDeterministic re-runs a command on the same input with every iteration order
// of the style election's maps and asserts identical output bytes.
func (m *zzMut) zzDeterministic(run func(ctx *zzContext) app.Error, firstOut string, firstErr bool) {
	zz.MapOrderNondet(true)
	ctx2 := newZZContext(m.before, m.ctx.now)
	err2 := run(ctx2)
	zz.MapOrderNondet(false)
	zz.Assert((err2 != nil) == firstErr, "repeat-same-outcome")
	zz.Assert(ctx2.fileText == firstOut, "repeat-yields-identical-bytes")
}

func zzParseOK(text string) []klog.Record {
	rs, _, errs := parser.NewSerialParser().Parse(text)
	zz.Assert(errs == nil, "written-file-is-valid")
	if errs != nil {
		zz.Stop()
	}
	return rs
}

// zzInsertRecord returns the model with a new record placed at index pos.
func zzInsertRecord(model []parser.ZZRec, pos int, r parser.ZZRec) []parser.ZZRec {
	out := append([]parser.ZZRec{}, model[:pos]...)
	out = append(out, r)
	return append(out, model[pos:]...)
}

// ZZ_Mut_Track: `klog track ENTRY` (date = today of the clock).
func ZZ_Mut_Track() {
	m := zzSetup()
	dg := zz.String("dg", 1)
	zz.Assume(dg[0] >= '0' && dg[0] <= '9')
	v := int(dg[0] - '0')
	type tc struct {
		entry klog.EntrySummary
		ok    bool
		e     parser.ZZEntry
	}
	cases := []tc{
		{klog.EntrySummary{dg + "h"}, true, parser.ZZEntry{Kind: 1, A: v * 60, Summary: []string{""}}},
		{klog.EntrySummary{"-4" + dg + "m lunch #break"}, true, parser.ZZEntry{Kind: 1, A: -(40 + v), Summary: []string{"lunch #break"}}},
		{klog.EntrySummary{"8:0" + dg + " - 9:00 run", "second line"}, true, parser.ZZEntry{Kind: 2, A: 8*60 + v, B: 9 * 60, Summary: []string{"run", "second line"}}},
		{klog.EntrySummary{"not an entry " + dg}, false, parser.ZZEntry{}},
	}
	c := cases[zz.Choose(len(cases))]
	run := func(ctx *zzContext) app.Error {
		return (&Track{Entry: append(klog.EntrySummary{}, c.entry...)}).Run(ctx)
	}
	err := run(m.ctx)
	zz.Observe("ok", err == nil)
	// C05: failure leaves the file untouched, success leaves a valid file
	zz.Assert((err == nil) == c.ok, "track-succeeds-iff-entry-is-valid")
	if err != nil {
		zz.Assert(m.ctx.writes == 0 && m.ctx.fileText == m.before, "failed-command-leaves-file-untouched")
		return
	}
	rs := zzParseOK(m.ctx.fileText)
	// C04: exactly the intended effect
	model := m.model
	if m.target >= 0 {
		model = append([]parser.ZZRec{}, m.model...)
		r := model[m.target]
		r.Entries = append(append([]parser.ZZEntry{}, r.Entries...), c.e)
		model[m.target] = r
	} else {
		model = zzInsertRecord(m.model, m.pos, parser.ZZRec{Date: m.today, Entries: []parser.ZZEntry{c.e}})
	}
	parser.ZZCheckModel(rs, model)
	if len(m.model) == 0 {
		// a file of nothing but blank lines may be replaced wholesale
		m.zzDeterministic(run, m.ctx.fileText, false)
		return
	}
	// C03: pure insertion of one contiguous block
	at, added := zzOnlyInsertion(m.before, m.ctx.fileText)
	indent, eol, definite := m.zzExpectStyle()
	if m.target >= 0 {
		zz.Assert(at == m.model[m.target].LastLine+1, "entry-inserted-after-the-records-last-line")
		zz.Assert(len(added) == len(c.entry), "one-line-per-entry-line")
	}
	// C11: inserted entry lines use the expected indentation and line ending
	for _, l := range added {
		if zzStrip(l) == "" || zzStrip(l) == m.today {
			continue
		}
		if definite {
			zz.Assert(len(l) > len(indent) && l[:len(indent)] == indent, "inserted-line-uses-record-or-file-indentation")
		}
		zz.Assert(zzEnding(l) == eol || zzEnding(l) == "", "inserted-line-uses-file-line-ending")
	}
	m.zzDeterministic(run, m.ctx.fileText, false)
}

// zzSymTime24 returns an arbitrary explicit --time value (24-hour, unshifted) and its offset.
func zzSymTime24() (klog.Time, int) {
	if zz.Param("L") >= 3 {
		// larger files: the time is a path choice (before / after every generated start time)
		h := []int{7, 23}[zz.Choose(2)]
		t, _ := klog.NewTime(h, 30)
		return t, h*60 + 30
	}
	h := zz.IntRange("th", 0, 23)
	mm := []int{5, 50}[zz.Choose(2)] // (every minute value is covered by C16/C17; here the hour carries the order relation)
	t, _ := klog.NewTime(h, mm)
	return t, h*60 + mm
}

// ZZ_Mut_Start: `klog start --time T [--summary ...]` on today's record (or a new record).
func ZZ_Mut_Start() {
	m := zzSetup()
	t, off := zzSymTime24()
	sumSel := zz.Choose(3 + 3*zz.ParamOr("resume", 0))
	var sum klog.EntrySummary
	want := []string{""}
	resume, resumeNth, noSuchEntry := false, 0, false
	summaryOf := func(e parser.ZZEntry) []string {
		if len(e.Summary) == 0 {
			return []string{""}
		}
		return e.Summary
	}
	switch sumSel {
	case 1:
		sum, want = klog.EntrySummary{"work #dev"}, []string{"work #dev"}
	case 2:
		sum, want = klog.EntrySummary{"work", "more"}, []string{"work", "more"}
	case 3: // --resume: summary of the record's last entry, else of the last entry of the latest earlier record
		resume = true
		if m.target >= 0 && len(m.model[m.target].Entries) > 0 {
			es := m.model[m.target].Entries
			want = summaryOf(es[len(es)-1])
		} else {
			best := -1
			for i, r := range m.model {
				if r.Date < m.today && (best < 0 || r.Date >= m.model[best].Date) {
					best = i
				}
			}
			if best >= 0 && len(m.model[best].Entries) > 0 {
				es := m.model[best].Entries
				want = summaryOf(es[len(es)-1])
			}
		}
	case 4, 5: // --resume-nth 1 / -2: that entry of the target record, else an error
		resumeNth = []int{1, -2}[sumSel-4]
		n := 0
		if m.target >= 0 {
			n = len(m.model[m.target].Entries)
		}
		idx := resumeNth - 1
		if resumeNth < 0 {
			idx = n + resumeNth
		}
		if idx < 0 || idx >= n {
			noSuchEntry = true
		} else {
			want = summaryOf(m.model[m.target].Entries[idx])
		}
	}
	run := func(ctx *zzContext) app.Error {
		c := &Start{}
		c.Time = t
		if sum != nil {
			c.SummaryText = append(klog.EntrySummary{}, sum...)
		}
		c.Resume, c.ResumeNth = resume, resumeNth
		return c.Run(ctx)
	}
	err := run(m.ctx)
	if noSuchEntry {
		zz.Assert(err != nil, "resume-nth-fails-iff-no-such-entry")
		zz.Assert(m.ctx.writes == 0 && m.ctx.fileText == m.before, "failed-command-leaves-file-untouched")
		return
	}
	hasOpen := false
	if m.target >= 0 {
		for _, e := range m.model[m.target].Entries {
			if e.Kind == 3 {
				hasOpen = true
			}
		}
	}
	zz.Observe("ok", err == nil)
	zz.Assert((err == nil) == !hasOpen, "start-fails-iff-record-already-has-open-range")
	if err != nil {
		zz.Assert(m.ctx.writes == 0 && m.ctx.fileText == m.before, "failed-command-leaves-file-untouched")
		return
	}
	rs := zzParseOK(m.ctx.fileText)
	ne := parser.ZZEntry{Kind: 3, A: off, Summary: want}
	model := m.model
	if m.target >= 0 {
		model = append([]parser.ZZRec{}, m.model...)
		r := model[m.target]
		r.Entries = append(append([]parser.ZZEntry{}, r.Entries...), ne)
		model[m.target] = r
	} else {
		model = zzInsertRecord(m.model, m.pos, parser.ZZRec{Date: m.today, Entries: []parser.ZZEntry{ne}})
	}
	parser.ZZCheckModel(rs, model)
	if len(m.model) == 0 {
		return
	}
	at, added := zzOnlyInsertion(m.before, m.ctx.fileText)
	indent, eol, definite := m.zzExpectStyle()
	if m.target >= 0 {
		zz.Assert(at == m.model[m.target].LastLine+1, "entry-inserted-after-the-records-last-line")
		zz.Assert(len(added) == len(want), "one-line-per-entry-line")
	}
	for _, l := range added {
		if zzStrip(l) == "" || zzStrip(l) == m.today {
			continue
		}
		if definite {
			zz.Assert(len(l) > len(indent) && l[:len(indent)] == indent, "inserted-line-uses-record-or-file-indentation")
		}
		zz.Assert(zzEnding(l) == eol || zzEnding(l) == "", "inserted-line-uses-file-line-ending")
	}
	m.zzDeterministic(run, m.ctx.fileText, false)
}

// ZZ_Mut_Stop: `klog stop --time T [--summary S]`; `switch` when Param sw == 1.
func ZZ_Mut_Stop() {
	m := zzSetup()
	if zz.Param("needOpen") == 1 {
		// larger files: only those where today's record holds an open range (the
		// failing cases do not depend on the file's size and are covered at L=2)
		has := false
		if m.target >= 0 {
			for _, e := range m.model[m.target].Entries {
				has = has || e.Kind == 3
			}
		}
		if !has {
			zz.Stop()
		}
	}
	t, off := zzSymTime24()
	isSwitch := zz.Param("sw") == 1
	var sum klog.EntrySummary
	extra := ""
	if !isSwitch && zz.Choose(2) == 1 {
		sum, extra = klog.EntrySummary{"done #x"}, "done #x"
	}
	run := func(ctx *zzContext) app.Error {
		if isSwitch {
			c := &Switch{}
			c.Time = t
			c.SummaryText = klog.EntrySummary{"next"}
			return c.Run(ctx)
		}
		c := &Stop{Summary: append(klog.EntrySummary{}, sum...)}
		c.Time = t
		return c.Run(ctx)
	}
	err := run(m.ctx)
	openIdx, openStart := -1, 0
	if m.target >= 0 {
		for i, e := range m.model[m.target].Entries {
			if e.Kind == 3 {
				openIdx, openStart = i, e.A
			}
		}
	}
	expectOK := zz.And(openIdx >= 0, off >= openStart)
	zz.Observe("ok", err == nil)
	zz.Assert(zz.Iff(err == nil, expectOK), "stop-succeeds-iff-open-range-and-end-not-before-start")
	if err != nil {
		zz.Assert(m.ctx.writes == 0 && m.ctx.fileText == m.before, "failed-command-leaves-file-untouched")
		return
	}
	rs := zzParseOK(m.ctx.fileText)
	model := append([]parser.ZZRec{}, m.model...)
	r := model[m.target]
	es := append([]parser.ZZEntry{}, r.Entries...)
	old := es[openIdx]
	closed := parser.ZZEntry{Kind: 2, A: old.A, B: off, Summary: append([]string{}, old.Summary...)}
	if extra != "" {
		last := len(closed.Summary) - 1
		if closed.Summary[last] == "" {
			closed.Summary[last] = extra
		} else {
			closed.Summary[last] += " " + extra
		}
	}
	es[openIdx] = closed
	if isSwitch {
		es = append(es, parser.ZZEntry{Kind: 3, A: off, Summary: []string{"next"}})
	}
	r.Entries = es
	model[m.target] = r
	parser.ZZCheckModel(rs, model)
	// C03: only the open-range entry's lines may change: its value line (placeholder replaced)
	// and the last line of its summary (text appended); switch additionally inserts one block
	b, a := zzSplit(m.before), zzSplit(m.ctx.fileText)
	valueLine := old.Line
	lastSummaryLine := old.Line + len(old.Summary) - 1
	zz.Assert(len(a) >= len(b), "no-line-removed")
	inserted := len(a) - len(b)
	if isSwitch {
		zz.Assert(inserted == 1, "switch-adds-one-entry-line")
	} else {
		zz.Assert(inserted == 0, "stop-adds-no-line")
	}
	insertAt := m.model[m.target].LastLine + 1
	for i := range b {
		j := i
		if i >= insertAt {
			j = i + inserted
		}
		if i == valueLine || i == lastSummaryLine {
			continue
		}
		if i == len(b)-1 && zzEnding(b[i]) == "" && inserted > 0 && insertAt == len(b) {
			zz.Assert(zzStrip(a[j]) == b[i], "final-line-only-gains-a-line-ending")
			continue
		}
		zz.Assert(a[j] == b[i], "other-lines-survive-byte-for-byte")
	}
	// the value line: everything up to the placeholder is kept
	vb, va := zzStrip(b[valueLine]), zzStrip(a[valueLine])
	q := 0
	for q < len(vb) && vb[q] != '?' {
		q++
	}
	zz.Assert(len(va) >= q && va[:q] == vb[:q], "text-before-placeholder-kept")
	zz.Assert(zzEnding(a[valueLine]) == zzEnding(b[valueLine]) || zzEnding(b[valueLine]) == "", "value-line-ending-kept")
	m.zzDeterministic(run, m.ctx.fileText, false)
}

// ZZ_Mut_Create: `klog create [--should D] [--summary S]` for today's date.
func ZZ_Mut_Create() {
	m := zzSetup()
	c := &Create{}
	rec := parser.ZZRec{Date: m.today}
	variant := zz.Choose(3)
	if variant >= 1 {
		h := zz.IntRange("sh", 0, 9)
		c.ShouldTotal = klog.NewShouldTotal(h, 30)
		rec.Should = h*60 + 30
	}
	if variant == 2 {
		c.Summary, _ = klog.NewRecordSummary("Title", "second #line")
		rec.Summary = []string{"Title", "second #line"}
	}
	run := func(ctx *zzContext) app.Error {
		cc := *c
		return cc.Run(ctx)
	}
	err := run(m.ctx)
	zz.Observe("ok", err == nil)
	zz.Assert(err == nil, "create-succeeds")
	if err != nil {
		return
	}
	rs := zzParseOK(m.ctx.fileText)
	// existing records keep their order; the new record appears once, at its chronological position
	parser.ZZCheckModel(rs, zzInsertRecord(m.model, m.pos, rec))
	if len(m.model) == 0 {
		return
	}
	_, added := zzOnlyInsertion(m.before, m.ctx.fileText)
	nonBlank := 0
	for _, l := range added {
		if zzStrip(l) != "" {
			nonBlank++
		}
		zz.Assert(zzEnding(l) == m.eol || zzEnding(l) == "", "inserted-line-uses-file-line-ending")
	}
	zz.Assert(nonBlank == 1+len(rec.Summary), "only-the-record-lines-are-added")
	zz.Assert(len(added) == nonBlank+1, "one-separating-blank-line")
	m.zzDeterministic(run, m.ctx.fileText, false)
}

// ZZ_Mut_Pause: `klog pause` driven for k ticks with symbolic clock readings
// (whole-minute increments incl. 0 and large jumps); `--extend` when Param extend == 1.
func ZZ_Mut_Pause() {
	m := zzSetup()
	k := zz.Param("ticks")
	extend := zz.Param("extend") == 1
	base := m.ctx.now
	clock := []gotime.Time{base, base}
	total := 0
	for i := 0; i < k; i++ {
		// one tick: the elapsed minutes are symbolic; longer histories: every tick's
		// increment is a path choice among {0, 1, 59, 61} (no progress, a minute, an hour boundary, a jump)
		inc := 0
		if k == 1 && !extend {
			inc = zz.IntRange("inc", 0, 90)
		} else {
			inc = []int{0, 1, 59, 61}[zz.Choose(4)]
		}
		total += inc
		clock = append(clock, base.Add(gotime.Duration(total)*gotime.Minute))
	}
	m.ctx.clock = clock
	m.ctx.stopAfter = k + 1 // first iteration + k ticks
	// which record is targeted: today's if it exists, else yesterday's
	rIdx := m.target
	if rIdx < 0 {
		y := klog.NewDateFromGo(base).PlusDays(-1)
		for i, r := range m.model {
			rd, _ := klog.NewDateFromString(r.Date)
			if rd.IsEqualTo(y) && rIdx < 0 {
				rIdx = i
			}
		}
	}
	openIdx := -1
	if rIdx >= 0 {
		for i, e := range m.model[rIdx].Entries {
			if e.Kind == 3 {
				openIdx = i
			}
		}
	}
	// with --extend: the last entry with a non-positive duration is the pause
	pauseIdx := -1
	if extend && rIdx >= 0 {
		for i, e := range m.model[rIdx].Entries {
			if e.Kind == 1 && e.A <= 0 {
				pauseIdx = i
			}
		}
	}
	var err app.Error
	cut := zz.Panics(func() { err = (&Pause{Extend: extend}).Run(m.ctx) })
	expectOK := openIdx >= 0 && (!extend || pauseIdx >= 0)
	zz.Observe("loop-cut", cut)
	zz.Assert(cut == expectOK, "pause-runs-iff-open-range-present")
	if !cut {
		zz.Assert(err != nil, "pause-reports-error")
		zz.Assert(m.ctx.writes == 0 && m.ctx.fileText == m.before, "failed-command-leaves-file-untouched")
		return
	}
	rs := zzParseOK(m.ctx.fileText)
	model := append([]parser.ZZRec{}, m.model...)
	r := model[rIdx]
	es := append([]parser.ZZEntry{}, r.Entries...)
	if extend {
		e := es[pauseIdx]
		e.A -= total
		es[pauseIdx] = e
	} else {
		tags := ""
		open := es[openIdx]
		for _, l := range open.Summary {
			if len(l) >= 2 && l[len(l)-2:] == "#t" {
				tags = "#t"
			}
			if len(l) > 0 {
				zz.Assume(l[0] != '#') // (a symbolic first byte '#' would form a second tag; tag recognition is C14)
			}
		}
		es = append(es, parser.ZZEntry{Kind: 1, A: -total, Summary: []string{tags}})
	}
	r.Entries = es
	model[rIdx] = r
	parser.ZZCheckModel(rs, model)
	// C03: every original line survives; without --extend exactly one line is added
	b, a := zzSplit(m.before), zzSplit(m.ctx.fileText)
	if extend {
		zz.Assert(len(a) == len(b), "extend-adds-no-line")
		for i := range b {
			if i == m.model[rIdx].Entries[pauseIdx].Line {
				continue
			}
			zz.Assert(a[i] == b[i], "other-lines-survive-byte-for-byte")
		}
	} else {
		at, added := zzOnlyInsertion(m.before, m.ctx.fileText)
		zz.Assert(len(added) == 1 && at == m.model[rIdx].LastLine+1, "pause-entry-inserted-after-the-records-last-line")
	}
}

// ZZ_Mut_InvalidTarget (C05): any mutating command on a file that does not parse
// fails and leaves the bytes untouched; a multi-step command whose second step
// fails writes nothing.
func ZZ_Mut_InvalidTarget() {
	d := parser.ZZGenDoc(zz.Param("L"), true)
	now := gotime.Date(2020, 1, 1, 12, 0, 0, 0, gotime.UTC)
	ctx := newZZContext(d.Text(), now)
	t, _ := klog.NewTime(13, 0)
	var err app.Error
	switch zz.Choose(5) {
	case 0:
		err = (&Track{Entry: klog.EntrySummary{"1h"}}).Run(ctx)
	case 1:
		c := &Start{}
		c.Time = t
		err = c.Run(ctx)
	case 2:
		c := &Stop{}
		c.Time = t
		err = c.Run(ctx)
	case 3:
		err = (&Create{}).Run(ctx)
	case 4:
		// switch: step 1 (close) may succeed, step 2 fails (no such entry to resume)
		c := &Switch{}
		c.Time = t
		c.ResumeNth = 7
		err = c.Run(ctx)
		zz.Assert(err != nil, "switch-with-failing-second-step-fails")
	}
	if !d.Accept() {
		zz.Assert(err != nil, "command-on-invalid-file-fails")
	}
	if err != nil {
		zz.Assert(ctx.writes == 0 && ctx.fileText == d.Text(), "failed-command-leaves-file-untouched")
		zz.Assert(err.Code() != 0, "failure-has-nonzero-exit-code")
	} else {
		zzParseOK(ctx.fileText)
	}
}

// ZZ_Mut_History (C04): sequences of commands on today's record; the file written
// by one command is the input of the next; after every step the file denotes the model.
func ZZ_Mut_History() {
	m := zzSetup()
	steps := zz.Param("steps")
	model := append([]parser.ZZRec{}, m.model...)
	idx := m.target
	for s := 0; s < steps; s++ {
		before := m.ctx.fileText
		writes := m.ctx.writes
		hasOpen, openIdx, openStart := false, -1, 0
		if idx >= 0 {
			for i, e := range model[idx].Entries {
				if e.Kind == 3 {
					hasOpen, openIdx, openStart = true, i, e.A
				}
			}
		}
		var err app.Error
		expectOK := true
		var apply func()
		addEntry := func(e parser.ZZEntry) {
			if idx >= 0 {
				r := model[idx]
				r.Entries = append(append([]parser.ZZEntry{}, r.Entries...), e)
				model[idx] = r
			} else {
				model = zzInsertRecord(model, m.pos, parser.ZZRec{Date: m.today, Entries: []parser.ZZEntry{e}})
				idx = m.pos
			}
		}
		switch zz.Choose(3) {
		case 0:
			err = (&Track{Entry: klog.EntrySummary{"2h tracked"}}).Run(m.ctx)
			apply = func() { addEntry(parser.ZZEntry{Kind: 1, A: 120, Summary: []string{"tracked"}}) }
		case 1:
			h := 13 + s
			t, _ := klog.NewTime(h, 0)
			c := &Start{}
			c.Time = t
			err = c.Run(m.ctx)
			expectOK = !hasOpen
			apply = func() { addEntry(parser.ZZEntry{Kind: 3, A: h * 60, Summary: []string{""}}) }
		case 2:
			h := zz.IntRange("stopH", 0, 23)
			t, _ := klog.NewTime(h, 30)
			c := &Stop{}
			c.Time = t
			err = c.Run(m.ctx)
			okc := zz.And(hasOpen, h*60+30 >= openStart)
			if okc {
				expectOK = true
			} else {
				expectOK = false
			}
			apply = func() {
				r := model[idx]
				es := append([]parser.ZZEntry{}, r.Entries...)
				es[openIdx] = parser.ZZEntry{Kind: 2, A: es[openIdx].A, B: h*60 + 30, Summary: es[openIdx].Summary}
				r.Entries = es
				model[idx] = r
			}
		}
		zz.Assert((err == nil) == expectOK, "command-succeeds-iff-model-accepts")
		if err != nil {
			zz.Assert(m.ctx.writes == writes && m.ctx.fileText == before, "failed-command-leaves-file-untouched")
			continue
		}
		apply()
		parser.ZZCheckModel(zzParseOK(m.ctx.fileText), model)
	}
}

// ZZ_C11_Election: a new record is added to a file whose records disagree (or
// agree) on indentation and line ending; the result must be deterministic, and
// the unanimous style must be used when there is one.
func ZZ_C11_Election() {
	inds := []string{"    ", "  ", "\t"}
	eols := []string{"\n", "\r\n"}
	n := 2 + zz.Choose(2)
	file := ""
	var usedInd []string
	var usedEol []string
	for i := 0; i < n; i++ {
		ind := inds[zz.Choose(len(inds))]
		eol := eols[zz.Choose(len(eols))]
		usedInd, usedEol = append(usedInd, ind), append(usedEol, eol)
		if i > 0 {
			file += eol
		}
		file += zzIso(2020, 1, 1+i) + eol + ind + "1h" + eol
	}
	now := gotime.Date(2020, 6, 6, 12, 0, 0, 0, gotime.UTC)
	run := func(ctx *zzContext) app.Error { return (&Track{Entry: klog.EntrySummary{"2h"}}).Run(ctx) }
	ctx := newZZContext(file, now)
	err := run(ctx)
	zz.Assert(err == nil, "track-on-new-date-succeeds")
	if err != nil {
		return
	}
	zzParseOK(ctx.fileText)
	_, added := zzOnlyInsertion(file, ctx.fileText)
	same := func(xs []string) bool {
		for _, x := range xs {
			if x != xs[0] {
				return false
			}
		}
		return true
	}
	for _, l := range added {
		if zzStrip(l) == "" || zzStrip(l) == "2020-06-06" {
			continue
		}
		if same(usedInd) {
			zz.Assert(len(l) > len(usedInd[0]) && l[:len(usedInd[0])] == usedInd[0], "unanimous-indentation-is-used")
		}
		if same(usedEol) {
			zz.Assert(zzEnding(l) == usedEol[0], "unanimous-line-ending-is-used")
		}
		// with or without agreement: a style that the file's records use, never one nobody uses
		okInd, okEol := false, false
		for _, u := range usedInd {
			if len(l) > len(u) && l[:len(u)] == u && l[len(u)] != ' ' && l[len(u)] != '\t' {
				okInd = true
			}
		}
		for _, u := range usedEol {
			okEol = okEol || zzEnding(l) == u
		}
		zz.Assert(okInd && okEol, "inserted-style-is-one-the-file-uses")
	}
	// determinism under every iteration order of the vote maps
	zz.MapOrderNondet(true)
	ctx2 := newZZContext(file, now)
	err2 := run(ctx2)
	zz.MapOrderNondet(false)
	zz.Assert(err2 == nil && ctx2.fileText == ctx.fileText, "repeat-yields-identical-bytes")
}

// ---------------------------------------------------------------------------
// Layout templates: small files with the formatting corners the quantifiers name
// (2/3-space and tab indentation, a multi-line summary as last line, whitespace-
// only lines around the record, CRLF, missing final newline, a second record in
// another style), crossed with the inserting commands.  Oracle: klog's own parse
// of the file before the command (the parser is the subject of C01) plus the
// expected delta.
// ---------------------------------------------------------------------------

func zzEntryTexts(r klog.Record) []string {
	var out []string
	for _, e := range r.Entries() {
		t := zzEntryTextOf(e)
		for _, l := range e.Summary().Lines() {
			t += "|" + l
		}
		out = append(out, t)
	}
	return out
}

func zzEntryTextOf(e klog.Entry) string {
	return klog.Unbox[string](&e,
		func(r klog.Range) string { return r.ToString() },
		func(d klog.Duration) string { return d.ToString() },
		func(o klog.OpenRange) string { return o.ToString() })
}

// ZZ_Mut_Layouts: C03 / C04 / C11 on layout templates.
func ZZ_Mut_Layouts() {
	ind := []string{"    ", "  ", "   ", "\t"}[zz.Choose(4)]
	eol := []string{"\n", "\r\n"}[zz.Choose(2)]
	dg := zz.String("dg", 1)
	zz.Assume(dg[0] >= '1' && dg[0] <= '9')
	body := "2020-01-01" + eol
	switch zz.Choose(5) {
	case 0: // entry with a two-line summary as the record's last lines
		body += ind + dg + "h work" + eol + ind + ind + "more text" + eol
	case 1: // continuation line with extra indentation
		body += ind + "8:00 - 9:0" + dg + eol + ind + ind + "  aligned" + eol
	case 2: // record summary only
		body += "Summary " + dg + eol
	case 3: // open range last
		body += ind + "30m" + eol + ind + "1" + dg + ":00 - ? #t" + eol
	case 4: // plain
		body += ind + dg + "m" + eol
	}
	// mixed line endings: the record's last line may end differently from its date line
	lastEol := eol
	if zz.Choose(2) == 1 {
		lastEol = "\n"
		if eol == "\n" {
			lastEol = "\r\n"
		}
		body = body[:len(body)-len(eol)] + lastEol
	}
	pre := []string{"", eol, "    " + eol, "\t" + eol + eol}[zz.Choose(4)]
	post := ""
	switch zz.Choose(4) {
	case 1:
		post = eol
	case 2:
		post = "  " + eol
	case 3: // a following record in another style
		other := "\t"
		if ind == "\t" {
			other = "  "
		}
		post = eol + "2020-01-05" + eol + other + "1h" + eol
	}
	file := pre + body + post
	if post == "" && zz.Choose(2) == 1 {
		file = file[:len(file)-len(lastEol)] // no final newline
	}
	now := gotime.Date(2020, 1, 1, 12, 0, 0, 0, gotime.UTC)
	ctx := newZZContext(file, now)
	rsBefore, _, errs := parser.NewSerialParser().Parse(file)
	zz.Assert(errs == nil && len(rsBefore) >= 1, "template-is-valid")
	if errs != nil {
		return
	}
	before := zzEntryTexts(rsBefore[0])
	hadOpen := rsBefore[0].OpenRange() != nil
	var err app.Error
	want := ""
	cmd := zz.Choose(2)
	switch cmd {
	case 0:
		err = (&Track{Entry: klog.EntrySummary{"2h tracked"}}).Run(ctx)
		want = "2h|tracked"
	case 1:
		t, _ := klog.NewTime(15, 0)
		c := &Start{}
		c.Time = t
		c.SummaryText = klog.EntrySummary{"go", "on"}
		err = c.Run(ctx)
		want = "15:00 - ?|go|on"
	}
	if cmd == 1 && hadOpen {
		zz.Assert(err != nil, "start-fails-iff-record-already-has-open-range")
		zz.Assert(ctx.fileText == file, "failed-command-leaves-file-untouched")
		return
	}
	zz.Assert(err == nil, "command-succeeds-iff-model-accepts")
	if err != nil {
		return
	}
	rs := zzParseOK(ctx.fileText)
	zz.Assert(len(rs) == len(rsBefore), "record-count")
	if len(rs) != len(rsBefore) {
		return
	}
	after := zzEntryTexts(rs[0])
	zz.Assert(len(after) == len(before)+1, "entry-count")
	if len(after) == len(before)+1 {
		for i := range before {
			zz.Assert(after[i] == before[i], "entry-kind-and-value")
		}
		zz.Assert(after[len(before)] == want, "entry-summary-text")
	}
	if len(rs) > 1 {
		zz.Assert(len(rs[1].Entries()) == len(rsBefore[1].Entries()), "entry-count")
	}
	// C03: pure insertion; C11: the record's own indentation and line ending
	_, added := zzOnlyInsertion(file, ctx.fileText)
	expectInd := ind
	if len(before) == 0 {
		expectInd = "" // no style of its own: any valid style (checked by the generator-based harness)
	}
	for _, l := range added {
		if expectInd != "" {
			zz.Assert(len(l) > len(expectInd) && l[:len(expectInd)] == expectInd && l[len(expectInd)] != ' ' || (len(l) > 2*len(expectInd) && l[:2*len(expectInd)] == expectInd+expectInd), "inserted-line-uses-record-or-file-indentation")
		}
		zz.Assert(zzEnding(l) == eol || zzEnding(l) == "", "inserted-line-uses-file-line-ending")
	}
}
