package cli

import (
	gotime "time"

	"github.com/jotaen/klog/klog"
	"github.com/jotaen/klog/klog/app/cli/report"
	"github.com/jotaen/klog/klog/parser"
	"github.com/jotaen/klog/klog/service"
	zz "github.com/jotaen/klog/klog/zzverif"
)

// Dates around year / ISO-week-year / month / leap boundaries, with their
// reference ISO (week-year, week) written down from the calendar.
var zzBoundaryDates = []struct {
	y, m, d    int
	wy, ww     int
	ordinalKey int // yyyymmdd
}{
	{2019, 12, 29, 2019, 52, 20191229},
	{2019, 12, 30, 2020, 1, 20191230},
	{2020, 1, 1, 2020, 1, 20200101},
	{2020, 2, 29, 2020, 9, 20200229},
	{2020, 3, 1, 2020, 9, 20200301},
	{2020, 12, 31, 2020, 53, 20201231},
	{2021, 1, 3, 2020, 53, 20210103},
	{2021, 1, 4, 2021, 1, 20210104},
}

func zzPeriodKey(agg int, i int) int {
	b := zzBoundaryDates[i]
	switch agg {
	case 0: // day
		return b.ordinalKey
	case 1: // week
		return b.wy*100 + b.ww
	case 2: // month
		return b.y*100 + b.m
	case 3: // quarter
		return b.y*10 + (b.m+2)/3
	}
	return b.y
}

// ZZ_C12_Partition: for every choice of n records on boundary dates (duplicates and
// any order allowed) with symbolic totals, every aggregation partitions the records
// by calendar period, group totals add up to the grand total, rows are chronological.
func ZZ_C12_Partition() {
	n := zz.Param("n")
	agg := zz.Param("agg")
	var rs []klog.Record
	var idx []int
	var mins []int
	sum := 0
	for i := 0; i < n; i++ {
		k := zz.Choose(len(zzBoundaryDates))
		b := zzBoundaryDates[k]
		d, _ := klog.NewDate(b.y, b.m, b.d)
		if i == 1 && zz.Choose(2) == 1 {
			d = klog.ZZRawDateFmt(b.y, b.m, b.d, false) // mixed notations in one file are valid
		}
		r := klog.NewRecord(d)
		v := zz.IntRange("mins", -100000, 100000)
		r.AddDuration(klog.NewDuration(0, v), nil)
		rs = append(rs, r)
		idx = append(idx, k)
		mins = append(mins, v)
		sum += v
	}
	aggregator := []report.Aggregator{report.NewDayAggregator(), report.NewWeekAggregator(), report.NewMonthAggregator(), report.NewQuarterAggregator(), report.NewYearAggregator()}[agg]
	sorted := service.Sort(rs, true)
	for i := 0; i+1 < len(sorted); i++ {
		zz.Assert(sorted[i+1].Date().IsAfterOrEqual(sorted[i].Date()), "rows-chronological-after-sort")
	}
	groups, order := groupByDate(aggregator.DateHash, sorted)
	// partition: every record in exactly one group; same group iff same reference period
	total := 0
	members := 0
	for _, g := range groups {
		total += service.Total(g...).InMinutes()
		members += len(g)
	}
	zz.Assert(members == n, "every-record-in-exactly-one-row")
	zz.Assert(total == sum, "rows-sum-to-grand-total")
	zz.Assert(service.Total(rs...).InMinutes() == sum, "grand-total-equals-klog-total")
	for i := 0; i < n; i++ {
		for j := i + 1; j < n; j++ {
			sameBucket := aggregator.DateHash(rs[i].Date()) == aggregator.DateHash(rs[j].Date())
			zz.Assert(sameBucket == (zzPeriodKey(agg, idx[i]) == zzPeriodKey(agg, idx[j])), "same-row-iff-same-calendar-period")
		}
	}
	zz.Assert(len(order) == len(groups), "one-row-per-period")
	for i := 0; i+1 < len(order); i++ {
		zz.Assert(order[i+1].IsAfterOrEqual(order[i]) && !order[i].IsEqualTo(order[i+1]), "rows-in-chronological-order")
	}
	// --fill: the filled dates run day by day from the first to the last record; gaps have no group
	if n >= 2 {
		all := allDatesRange(sorted[0].Date(), sorted[n-1].Date())
		zz.Assert(all[0].IsEqualTo(sorted[0].Date()) && all[len(all)-1].IsEqualTo(sorted[n-1].Date()), "fill-spans-first-to-last")
		for i := 0; i+1 < len(all); i++ {
			zz.Assert(all[i].PlusDays(1).IsEqualTo(all[i+1]), "fill-is-consecutive")
		}
		filledTotal := 0
		seen := map[int]bool{}
		for _, d := range all {
			h := int(aggregator.DateHash(d))
			if seen[h] {
				continue
			}
			seen[h] = true
			filledTotal += service.Total(groups[aggregator.DateHash(d)]...).InMinutes()
		}
		zz.Assert(filledTotal == sum, "filled-gaps-contribute-nothing")
	}
	// klog today: current + other = all
	now := gotime.Date(2020, 3, 1, 9, 0, 0, 0, gotime.UTC)
	cur, other, _ := splitIntoCurrentAndOther(now, rs)
	zz.Assert(len(cur)+len(other) == n, "today-splits-all-records")
	zz.Assert(service.Total(cur...).InMinutes()+service.Total(other...).InMinutes() == sum, "today-current-plus-other-is-total")
	for _, r := range cur {
		isToday := r.Date().Year() == 2020 && r.Date().Month() == 3 && r.Date().Day() == 1
		isYesterday := r.Date().Year() == 2020 && r.Date().Month() == 2 && r.Date().Day() == 29
		zz.Assert(isToday || isYesterday, "current-records-are-todays-or-yesterdays")
	}
}

// ZZ_C12_ReportVsTotal: `klog report` (every aggregation) and `klog total` print the
// same grand total under the same flags (--now, entry-type and date filters).
func ZZ_C12_ReportVsTotal() {
	nowH := zz.IntRange("h", 12, 23)
	now := gotime.Date(2020, 3, 2, nowH, 30, 0, 0, gotime.UTC)
	file := "2020-02-20\n    1h\n    7:00 - ?\n\n2020-03-01\n    2h\n    8:00 - 9:00\n\n2020-03-02\n    30m\n    9:15 - ?\n"
	useNow := zz.Choose(2) == 1
	et := []service.EntryType{"", service.ENTRY_TYPE_RANGE, service.ENTRY_TYPE_DURATION, service.ENTRY_TYPE_OPEN_RANGE}[zz.Choose(4)]
	since, _ := klog.NewDate(2020, 3, 1)
	dateFilter := zz.Choose(2) == 1
	agg := []string{"day", "week", "month", "quarter", "year"}[zz.Choose(5)]
	ctx1 := newZZContext(file, now)
	t := &Total{}
	t.Now, t.EntryType, t.Decimal, t.NoWarn = useNow, et, true, true
	if dateFilter {
		t.Since = since
	}
	e1 := t.Run(ctx1)
	ctx2 := newZZContext(file, now)
	r := &Report{}
	r.Now, r.EntryType, r.Decimal, r.NoWarn, r.AggregateBy = useNow, et, true, true, agg
	if dateFilter {
		r.Since = since
	}
	e2 := r.Run(ctx2)
	zz.Assert((e1 == nil) == (e2 == nil), "report-and-total-fail-alike")
	if e1 != nil || e2 != nil {
		return
	}
	// "Total: <mins>\n..." vs the last row of the report table
	tot := ""
	lines := zzSplit(ctx1.printed)
	for _, l := range lines {
		l = zzStrip(l)
		if len(l) > 7 && l[:7] == "Total: " {
			tot = l[7:]
		}
	}
	rows := zzSplit(ctx2.printed)
	last := ""
	for _, l := range rows {
		if zzStrip(l) != "" {
			last = zzStrip(l)
		}
	}
	for len(last) > 0 && last[0] == ' ' {
		last = last[1:]
	}
	zz.Observe("total", tot)
	if len(rows) == 0 {
		return // nothing matched the filter: report prints nothing
	}
	zz.Assert(last == tot, "report-grand-total-equals-klog-total")
}

// ZZ_C12_PrintWithTotals: `klog print --with-totals` on every conforming generated
// document: removing the prefix column gives the plain print output; the first line
// of every record carries the record's total, every entry's first line carries the
// entry's total, and the entry values add up to the record value.
func ZZ_C12_PrintWithTotals() {
	d := parser.ZZGenDoc(zz.Param("L"), false)
	if !d.Accept() {
		zz.Stop()
	}
	rs, _, errs := parser.NewSerialParser().Parse(d.Text())
	if errs != nil || len(rs) == 0 {
		zz.Stop()
	}
	now := gotime.Date(2030, 1, 1, 12, 0, 0, 0, gotime.UTC)
	ctx1 := newZZContext(d.Text(), now)
	p1 := &Print{WithTotals: true}
	p1.NoWarn = true
	e1 := p1.Run(ctx1)
	ctx2 := newZZContext(d.Text(), now)
	p2 := &Print{}
	p2.NoWarn = true
	e2 := p2.Run(ctx2)
	zz.Assert(e1 == nil && e2 == nil, "print-succeeds")
	if e1 != nil || e2 != nil {
		return
	}
	with, plain := zzSplit(ctx1.printed), zzSplit(ctx2.printed)
	zz.Assert(len(with) == len(plain), "with-totals-adds-no-lines")
	if len(with) != len(plain) {
		return
	}
	sep := "  |  "
	rec := -1       // index of the current record
	entrySum := 0   // sum of the entry prefixes of the current record
	entryCount := 0 // number of entry prefixes of the current record
	recTotal := 0   // the record prefix
	inRecord := false
	closeRecord := func() {
		if inRecord {
			zz.Assert(entrySum == recTotal, "entry-values-add-up-to-record-value")
			zz.Assert(entryCount == len(rs[rec].Entries()), "one-value-per-entry")
		}
		inRecord = false
	}
	for i := range with {
		w, p := zzStrip(with[i]), zzStrip(plain[i])
		if p == "" {
			zz.Assert(w == "", "with-totals-adds-no-lines")
			closeRecord()
			continue
		}
		cut := -1
		for k := 0; k+len(sep) <= len(w); k++ {
			if w[k:k+len(sep)] == sep {
				cut = k
				break
			}
		}
		zz.Assert(cut >= 0 && w[cut+len(sep):] == p, "line-without-prefix-equals-plain-print")
		if cut < 0 {
			return
		}
		prefix := w[:cut]
		for len(prefix) > 0 && prefix[0] == ' ' {
			prefix = prefix[1:]
		}
		if !inRecord {
			rec++
			inRecord, entrySum, entryCount = true, 0, 0
			zz.Assert(rec < len(rs), "one-block-per-record")
			if rec >= len(rs) {
				return
			}
			zz.Assert(prefix == service.Total(rs[rec]).ToString(), "record-line-carries-record-total")
			recTotal = service.Total(rs[rec]).InMinutes()
			continue
		}
		if prefix == "" {
			continue
		}
		zz.Assert(entryCount < len(rs[rec].Entries()), "one-value-per-entry")
		if entryCount < len(rs[rec].Entries()) {
			e := rs[rec].Entries()[entryCount]
			zz.Assert(prefix == e.Duration().ToString(), "entry-line-carries-entry-total")
			entrySum += e.Duration().InMinutes()
		}
		entryCount++
	}
	closeRecord()
	zz.Assert(rec == len(rs)-1, "one-block-per-record")
}
