package util

import (
	gotime "time"

	"github.com/jotaen/klog/klog"
	zz "github.com/jotaen/klog/klog/zzverif"
)

func zzLeap(y int) bool { return zz.And(y%4 == 0, zz.Or(y%100 != 0, y%400 == 0)) }

func zzDaysIn(y, m int) int {
	d := 31
	d = zz.IteInt(zz.Or(zz.Or(m == 4, m == 6), zz.Or(m == 9, m == 11)), 30, d)
	d = zz.IteInt(m == 2, zz.IteInt(zzLeap(y), 29, 28), d)
	return d
}

// zzPrevDay / zzNextDay: calendar successor functions on symbolic fields.
func zzPrevDay(y, m, d int) (int, int, int) {
	py := zz.IteInt(zz.And(m == 1, d == 1), y-1, y)
	pm := zz.IteInt(d == 1, zz.IteInt(m == 1, 12, m-1), m)
	pd := zz.IteInt(d == 1, zzDaysIn(py, pm), d-1)
	return py, pm, pd
}

func zzNextDay(y, m, d int) (int, int, int) {
	last := d == zzDaysIn(y, m)
	ny := zz.IteInt(zz.And(last, m == 12), y+1, y)
	nm := zz.IteInt(last, zz.IteInt(m == 12, 1, m+1), m)
	nd := zz.IteInt(last, 1, d+1)
	return ny, nm, nd
}

// zzWeekday: 1 = Monday .. 7 = Sunday (Sakamoto's method, years >= 1).
func zzWeekday(y, m, d int) int {
	t := 0
	for i, v := range []int{0, 3, 2, 5, 0, 3, 5, 1, 4, 6, 2, 4} {
		t = zz.IteInt(m == i+1, v, t)
	}
	yy := zz.IteInt(m < 3, y-1, y)
	wd := (yy + yy/4 - yy/100 + yy/400 + t + d) % 7 // 0 = Sunday
	return zz.IteInt(wd == 0, 7, wd)
}

// ZZ_C13_Shortcuts: the relative shortcuts (--this/--last month, quarter, year and
// --today/--yesterday/--tomorrow, --after/--before) select exactly the records of the
// reference period, for every reference date of the year window.
func ZZ_C13_Shortcuts() {
	from, span := zz.Param("from"), zz.Param("span")
	y := zz.IntRange("y", from, from+span-1)
	m := zz.IntRange("m", 1, 12)
	d := zz.IntRange("d", 1, 31)
	zz.Assume(d <= zzDaysIn(y, m))
	sel := zz.Param("sel")
	if sel == 9 || sel == 10 {
		// week shortcuts: the reference Monday is up to 13 conditional day steps away; every
		// reference date of the window is taken as its own path (case split) instead
		y, m, d = zz.Concretize(y), zz.Concretize(m), zz.Concretize(d)
	}
	now := gotime.Date(y, gotime.Month(m), d, 12, 0, 0, 0, gotime.UTC)
	args := &FilterArgs{}
	// reference period [sy-sm-sd, uy-um-ud]
	var sy, sm, sd, uy, um, ud int
	q := (m + 2) / 3
	switch sel {
	case 0:
		args.ThisMonth = true
		sy, sm, sd, uy, um, ud = y, m, 1, y, m, zzDaysIn(y, m)
	case 1:
		args.LastMonth = true
		py := zz.IteInt(m == 1, y-1, y)
		pm := zz.IteInt(m == 1, 12, m-1)
		sy, sm, sd, uy, um, ud = py, pm, 1, py, pm, zzDaysIn(py, pm)
	case 2:
		args.ThisQuarter = true
		sy, sm, sd, uy, um, ud = y, 3*q-2, 1, y, 3*q, zzDaysIn(y, 3*q)
	case 3:
		args.LastQuarter = true
		py := zz.IteInt(q == 1, y-1, y)
		pq := zz.IteInt(q == 1, 4, q-1)
		sy, sm, sd, uy, um, ud = py, 3*pq-2, 1, py, 3*pq, zzDaysIn(py, 3*pq)
	case 4:
		args.ThisYear = true
		sy, sm, sd, uy, um, ud = y, 1, 1, y, 12, 31
	case 5:
		args.LastYear = true
		sy, sm, sd, uy, um, ud = y-1, 1, 1, y-1, 12, 31
	case 6:
		args.Today = true
		sy, sm, sd, uy, um, ud = y, m, d, y, m, d
	case 7:
		args.Yesterday = true
		sy, sm, sd = zzPrevDay(y, m, d)
		uy, um, ud = sy, sm, sd
	case 8:
		args.Tomorrow = true
		sy, sm, sd = zzNextDay(y, m, d)
		uy, um, ud = sy, sm, sd
	case 9, 10:
		// --this-week / --last-week: Monday to Sunday of the (previous) ISO week
		zz.Assume(y >= 1)
		args.ThisWeek = sel == 9
		args.LastWeek = sel == 10
		back := zzWeekday(y, m, d) - 1
		if sel == 10 {
			back += 7
		}
		sy, sm, sd = y, m, d
		for i := 0; i < 13; i++ {
			py, pm, pd := zzPrevDay(sy, sm, sd)
			step := i < back
			sy, sm, sd = zz.IteInt(step, py, sy), zz.IteInt(step, pm, sm), zz.IteInt(step, pd, sd)
		}
		uy, um, ud = sy, sm, sd
		for i := 0; i < 6; i++ {
			uy, um, ud = zzNextDay(uy, um, ud)
		}
	case 11, 12:
		// --after X / --before X (exclusive): only the day after / before X of the three days around it
		x := klog.ZZRawDate(y, m, d)
		if sel == 11 {
			args.After = x
		} else {
			args.Before = x
		}
		py, pm, pd := zzPrevDay(y, m, d)
		ny, nm, nd := zzNextDay(y, m, d)
		mk := func(yy, mm, dd, id int) klog.Record {
			r := klog.NewRecord(klog.ZZRawDate(yy, mm, dd))
			r.AddDuration(klog.NewDuration(0, id), nil)
			return r
		}
		out := args.ApplyFilter(now, []klog.Record{mk(py, pm, pd, 1), mk(y, m, d, 2), mk(ny, nm, nd, 3)})
		want := 3
		if sel == 12 {
			want = 1
		}
		zz.Assert(len(out) == 1, "exactly-the-periods-records-selected")
		if len(out) == 1 {
			zz.Assert(out[0].Entries()[0].Duration().InMinutes() == want, "first-and-last-day-included-neighbours-excluded")
		}
		return
	}
	// the day before `since` and the day after `until`, by calendar arithmetic on the fields
	by, bm, bd := zzPrevDay(sy, sm, sd)
	ay, am, ad := zzNextDay(uy, um, ud)
	mk := func(yy, mm, dd, id int) klog.Record {
		r := klog.NewRecord(klog.ZZRawDate(yy, mm, dd))
		r.AddDuration(klog.NewDuration(0, id), nil)
		return r
	}
	rs := []klog.Record{mk(by, bm, bd, 1), mk(sy, sm, sd, 2), mk(uy, um, ud, 3), mk(ay, am, ad, 4)}
	out := args.ApplyFilter(now, rs)
	zz.Observe("selected", len(out))
	zz.Assert(len(out) == 2, "exactly-the-periods-records-selected")
	if len(out) == 2 {
		zz.Assert(out[0].Entries()[0].Duration().InMinutes() == 2 && out[1].Entries()[0].Duration().InMinutes() == 3, "first-and-last-day-included-neighbours-excluded")
	}
}
