package util

import (
	gotime "time"

	"github.com/jotaen/klog/klog"
	zz "github.com/jotaen/klog/klog/zzverif"
)

func zzLeap(y int) bool { return zz.And(y%4 == 0, zz.Or(y%100 != 0, y%400 == 0)) }

func zzDaysIn(y, m int) int {
	d := 31
	d = zz.IteInt(zz.Or(zz.Or(m == 4, m == 6), zz.Or(m == 9, m == 11)), 30, d)
	d = zz.IteInt(m == 2, zz.IteInt(zzLeap(y), 29, 28), d)
	return d
}

// ZZ_C13_Shortcuts: the relative shortcuts (--this/--last month, quarter, year and
// --today/--yesterday/--tomorrow, --after/--before) select exactly the records of the
// reference period, for every reference date of the year window.
func ZZ_C13_Shortcuts() {
	from, span := zz.Param("from"), zz.Param("span")
	y := zz.IntRange("y", from, from+span-1)
	m := zz.IntRange("m", 1, 12)
	d := zz.IntRange("d", 1, 31)
	zz.Assume(d <= zzDaysIn(y, m))
	now := gotime.Date(y, gotime.Month(m), d, 12, 0, 0, 0, gotime.UTC)
	sel := zz.Param("sel")
	args := &FilterArgs{}
	// reference period [sy-sm-sd, uy-um-ud]
	var sy, sm, sd, uy, um, ud int
	q := (m + 2) / 3
	switch sel {
	case 0:
		args.ThisMonth = true
		sy, sm, sd, uy, um, ud = y, m, 1, y, m, zzDaysIn(y, m)
	case 1:
		args.LastMonth = true
		py := zz.IteInt(m == 1, y-1, y)
		pm := zz.IteInt(m == 1, 12, m-1)
		sy, sm, sd, uy, um, ud = py, pm, 1, py, pm, zzDaysIn(py, pm)
	case 2:
		args.ThisQuarter = true
		sy, sm, sd, uy, um, ud = y, 3*q-2, 1, y, 3*q, zzDaysIn(y, 3*q)
	case 3:
		args.LastQuarter = true
		py := zz.IteInt(q == 1, y-1, y)
		pq := zz.IteInt(q == 1, 4, q-1)
		sy, sm, sd, uy, um, ud = py, 3*pq-2, 1, py, 3*pq, zzDaysIn(py, 3*pq)
	case 4:
		args.ThisYear = true
		sy, sm, sd, uy, um, ud = y, 1, 1, y, 12, 31
	case 5:
		args.LastYear = true
		sy, sm, sd, uy, um, ud = y-1, 1, 1, y-1, 12, 31
	case 6:
		args.Today = true
		sy, sm, sd, uy, um, ud = y, m, d, y, m, d
	}
	// the day before `since` and the day after `until`, by calendar arithmetic on the fields
	by := zz.IteInt(zz.And(sm == 1, sd == 1), sy-1, sy)
	bm := zz.IteInt(sd == 1, zz.IteInt(sm == 1, 12, sm-1), sm)
	bd := zz.IteInt(sd == 1, zzDaysIn(by, bm), sd-1)
	last := ud == zzDaysIn(uy, um)
	ay := zz.IteInt(zz.And(last, um == 12), uy+1, uy)
	am := zz.IteInt(last, zz.IteInt(um == 12, 1, um+1), um)
	ad := zz.IteInt(last, 1, ud+1)
	mk := func(yy, mm, dd, id int) klog.Record {
		r := klog.NewRecord(klog.ZZRawDate(yy, mm, dd))
		r.AddDuration(klog.NewDuration(0, id), nil)
		return r
	}
	rs := []klog.Record{mk(by, bm, bd, 1), mk(sy, sm, sd, 2), mk(uy, um, ud, 3), mk(ay, am, ad, 4)}
	out := args.ApplyFilter(now, rs)
	zz.Observe("selected", len(out))
	zz.Assert(len(out) == 2, "exactly-the-periods-records-selected")
	if len(out) == 2 {
		zz.Assert(out[0].Entries()[0].Duration().InMinutes() == 2 && out[1].Entries()[0].Duration().InMinutes() == 3, "first-and-last-day-included-neighbours-excluded")
	}
}
