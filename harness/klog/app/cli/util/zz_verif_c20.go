package util

import (
	gojson "encoding/json"

	"github.com/jotaen/klog/klog"
	"github.com/jotaen/klog/klog/parser"
	"github.com/jotaen/klog/klog/parser/json"
	"github.com/jotaen/klog/klog/parser/txt"
	zz "github.com/jotaen/klog/klog/zzverif"
)

// ---------------------------------------------------------------------------
// A reference JSON reader written from RFC 8259 (objects keep their key order).
// The same code runs natively on the text the real encoding/json produced and
// under the engine on the text of the engine's encoding/json model.
// ---------------------------------------------------------------------------

type zzJ struct {
	kind  byte // 'o' object, 'a' array, 's' string, 'n' integer, 'r' other number, 't' true, 'f' false, 'z' null
	s     string
	n     int
	keys  []string
	elems []*zzJ
}

type zzJReader struct {
	t  string
	p  int
	ok bool
}

func (r *zzJReader) ws() {
	for r.p < len(r.t) && (r.t[r.p] == ' ' || r.t[r.p] == '\n' || r.t[r.p] == '\r' || r.t[r.p] == '\t') {
		r.p++
	}
}

func (r *zzJReader) fail() *zzJ { r.ok = false; return &zzJ{kind: 'z'} }

func (r *zzJReader) lit(w string, k byte) *zzJ {
	if r.p+len(w) > len(r.t) || r.t[r.p:r.p+len(w)] != w {
		return r.fail()
	}
	r.p += len(w)
	return &zzJ{kind: k}
}

func zzHexVal(c byte) (int, bool) {
	switch {
	case c >= '0' && c <= '9':
		return int(c - '0'), true
	case c >= 'a' && c <= 'f':
		return int(c-'a') + 10, true
	case c >= 'A' && c <= 'F':
		return int(c-'A') + 10, true
	}
	return 0, false
}

func (r *zzJReader) str() string {
	r.p++ // opening quote
	out := ""
	for r.ok {
		if r.p >= len(r.t) {
			r.ok = false
			break
		}
		c := r.t[r.p]
		if c == '"' {
			r.p++
			return out
		}
		if c < 0x20 {
			r.ok = false
			break
		}
		if c != '\\' {
			out += r.t[r.p : r.p+1]
			r.p++
			continue
		}
		r.p++
		if r.p >= len(r.t) {
			r.ok = false
			break
		}
		e := r.t[r.p]
		r.p++
		switch e {
		case '"', '\\', '/':
			out += string(rune(e))
		case 'b':
			out += "\b"
		case 'f':
			out += "\f"
		case 'n':
			out += "\n"
		case 'r':
			out += "\r"
		case 't':
			out += "\t"
		case 'u':
			if r.p+4 > len(r.t) {
				r.ok = false
				break
			}
			v := 0
			for i := 0; i < 4; i++ {
				h, ok := zzHexVal(r.t[r.p+i])
				if !ok {
					r.ok = false
				}
				v = v*16 + h
			}
			r.p += 4
			if v >= 0xD800 && v < 0xE000 {
				r.ok = false // surrogates do not occur in klog's output (the encoder writes UTF-8)
				break
			}
			out += string(rune(v))
		default:
			r.ok = false
		}
	}
	return out
}

func (r *zzJReader) value(depth int) *zzJ {
	r.ws()
	if !r.ok || r.p >= len(r.t) || depth > 8 {
		return r.fail()
	}
	c := r.t[r.p]
	switch {
	case c == '{':
		r.p++
		n := &zzJ{kind: 'o'}
		r.ws()
		if r.p < len(r.t) && r.t[r.p] == '}' {
			r.p++
			return n
		}
		for r.ok {
			r.ws()
			if r.p >= len(r.t) || r.t[r.p] != '"' {
				return r.fail()
			}
			k := r.str()
			r.ws()
			if r.p >= len(r.t) || r.t[r.p] != ':' {
				return r.fail()
			}
			r.p++
			v := r.value(depth + 1)
			n.keys, n.elems = append(n.keys, k), append(n.elems, v)
			r.ws()
			if r.p < len(r.t) && r.t[r.p] == ',' {
				r.p++
				continue
			}
			if r.p < len(r.t) && r.t[r.p] == '}' {
				r.p++
				return n
			}
			return r.fail()
		}
		return r.fail()
	case c == '[':
		r.p++
		n := &zzJ{kind: 'a'}
		r.ws()
		if r.p < len(r.t) && r.t[r.p] == ']' {
			r.p++
			return n
		}
		for r.ok {
			n.elems = append(n.elems, r.value(depth+1))
			r.ws()
			if r.p < len(r.t) && r.t[r.p] == ',' {
				r.p++
				continue
			}
			if r.p < len(r.t) && r.t[r.p] == ']' {
				r.p++
				return n
			}
			return r.fail()
		}
		return r.fail()
	case c == '"':
		return &zzJ{kind: 's', s: r.str()}
	case c == 't':
		return r.lit("true", 't')
	case c == 'f':
		return r.lit("false", 'f')
	case c == 'n':
		return r.lit("null", 'z')
	case c == '-' || (c >= '0' && c <= '9'):
		neg := false
		if c == '-' {
			neg = true
			r.p++
		}
		if r.p >= len(r.t) || r.t[r.p] < '0' || r.t[r.p] > '9' {
			return r.fail()
		}
		if r.t[r.p] == '0' && r.p+1 < len(r.t) && r.t[r.p+1] >= '0' && r.t[r.p+1] <= '9' {
			return r.fail() // leading zero
		}
		v := 0
		for r.p < len(r.t) && r.t[r.p] >= '0' && r.t[r.p] <= '9' {
			v = v*10 + int(r.t[r.p]-'0')
			r.p++
		}
		if r.p < len(r.t) && (r.t[r.p] == '.' || r.t[r.p] == 'e' || r.t[r.p] == 'E') {
			return r.fail() // klog only emits integers
		}
		if neg {
			v = -v
		}
		return &zzJ{kind: 'n', n: v}
	}
	return r.fail()
}

func zzReadJSON(text string) (*zzJ, bool) {
	r := &zzJReader{t: text, ok: true}
	v := r.value(0)
	r.ws()
	return v, r.ok && r.p == len(text)
}

func (j *zzJ) hasKeys(keys ...string) bool {
	if j.kind != 'o' || len(j.keys) != len(keys) {
		return false
	}
	for i := range keys {
		if j.keys[i] != keys[i] {
			return false
		}
	}
	return true
}

func (j *zzJ) strs() ([]string, bool) {
	if j.kind != 'a' {
		return nil, false
	}
	out := []string{}
	for _, e := range j.elems {
		if e.kind != 's' {
			return nil, false
		}
		out = append(out, e.s)
	}
	return out, true
}

func zzSameStrings(a, b []string) bool {
	if len(a) != len(b) {
		return false
	}
	for i := range a {
		if a[i] != b[i] {
			return false
		}
	}
	return true
}

func zzSortedTags(ts *klog.TagSet) []string {
	out := append([]string{}, ts.ToStrings()...)
	for i := 1; i < len(out); i++ {
		for k := i; k > 0 && out[k] < out[k-1]; k-- {
			out[k], out[k-1] = out[k-1], out[k]
		}
	}
	return out
}

func zzJoin(lines []string) string {
	s := ""
	for j, l := range lines {
		if j > 0 {
			s += "\n"
		}
		s += l
	}
	return s
}

// ZZ_C20_Json: the emitted TEXT is one well-formed JSON document; exactly one of
// records / errors is non-null; every object has exactly the documented keys;
// the values reproduce the parsed data; totals are consistent.
func ZZ_C20_Json() {
	d := parser.ZZGenDoc(zz.Param("L"), zz.Param("faults") == 1)
	rs, _, errs := parser.NewSerialParser().Parse(d.Text())
	text := json.ToJson(rs, errs, zz.Param("pretty") == 1)
	zzCheckJSON(text, rs, errs)
}

func zzCheckRecordsJSON(text string, rs []klog.Record) { zzCheckJSON(text, rs, nil) }

// zzCheckJSON: the assertions of C20 on an emitted text.
func zzCheckJSON(text string, rs []klog.Record, errs []txt.Error) {
	root, ok := zzReadJSON(text)
	zz.Assert(ok, "json-well-formed")
	zz.Assert(gojson.Valid([]byte(text)) == ok, "json-well-formed")
	if !ok {
		return
	}
	zz.Assert(root.hasKeys("records", "errors"), "envelope-keys")
	if !root.hasKeys("records", "errors") {
		return
	}
	recs, ers := root.elems[0], root.elems[1]
	zz.Assert((recs.kind == 'z') != (ers.kind == 'z'), "exactly-one-of-records-and-errors")
	if errs != nil {
		zz.Assert(recs.kind == 'z' && ers.kind == 'a' && len(ers.elems) == len(errs), "errors-listed")
		if ers.kind == 'a' && len(ers.elems) == len(errs) {
			for i, v := range ers.elems {
				if !v.hasKeys("line", "column", "length", "title", "details", "file") {
					zz.Assert(false, "error-object-keys")
					continue
				}
				e := v.elems
				zz.Assert(e[0].kind == 'n' && e[1].kind == 'n' && e[2].kind == 'n' && e[3].kind == 's' && e[4].kind == 's' && e[5].kind == 's', "error-object-keys")
				zz.Assert(e[0].n == errs[i].LineNumber() && e[1].n == errs[i].Position()+1 && e[2].n == errs[i].Length(), "error-position-as-in-terminal-report")
				zz.Assert(e[3].s == errs[i].Title() && e[4].s == errs[i].Details(), "error-message-as-in-terminal-report")
			}
		}
		return
	}
	zz.Assert(ers.kind == 'z' && recs.kind == 'a' && len(recs.elems) == len(rs), "records-listed-in-order")
	if recs.kind != 'a' || len(recs.elems) != len(rs) {
		return
	}
	for i, v := range recs.elems {
		r := rs[i]
		if !v.hasKeys("date", "summary", "total", "total_mins", "should_total", "should_total_mins", "diff", "diff_mins", "tags", "entries") {
			zz.Assert(false, "record-object-keys")
			continue
		}
		f := v.elems
		zz.Assert(f[0].kind == 's' && f[1].kind == 's' && f[2].kind == 's' && f[3].kind == 'n' && f[4].kind == 's' && f[5].kind == 'n' && f[6].kind == 's' && f[7].kind == 'n' && f[8].kind == 'a' && f[9].kind == 'a', "record-object-keys")
		zz.Assert(f[0].s == r.Date().ToString(), "record-date")
		zz.Assert(f[1].s == zzJoin(r.Summary().Lines()), "record-summary")
		tags, tok := f[8].strs()
		zz.Assert(tok && zzSameStrings(tags, zzSortedTags(r.Summary().Tags())), "record-tags")
		zz.Assert(f[5].n == r.ShouldTotal().InMinutes(), "should-total-mins")
		zz.Assert(f[4].s == r.ShouldTotal().ToString(), "should-total-text")
		zz.Assert(len(f[9].elems) == len(r.Entries()), "entries-in-order")
		total := 0
		if len(f[9].elems) == len(r.Entries()) {
			for j, ev := range f[9].elems {
				e := r.Entries()[j]
				kind := klog.Unbox[string](&e, func(klog.Range) string { return "range" },
					func(klog.Duration) string { return "duration" }, func(klog.OpenRange) string { return "open_range" })
				base := []string{"type", "summary", "tags", "total", "total_mins"}
				switch kind {
				case "open_range":
					base = append(base, "start", "start_mins")
				case "range":
					base = append(base, "start", "start_mins", "end", "end_mins")
				}
				if !ev.hasKeys(base...) {
					zz.Assert(false, "entry-object-keys")
					continue
				}
				g := ev.elems
				zz.Assert(g[0].kind == 's' && g[0].s == kind, "entry-type")
				zz.Assert(g[1].kind == 's' && g[1].s == zzJoin(e.Summary().Lines()), "entry-summary")
				etags, etok := g[2].strs()
				zz.Assert(etok && zzSameStrings(etags, zzSortedTags(e.Summary().Tags())), "entry-tags")
				zz.Assert(g[3].kind == 's' && g[4].kind == 'n', "entry-object-keys")
				switch kind {
				case "range":
					rg := klog.Unbox[klog.Range](&e, func(x klog.Range) klog.Range { return x },
						func(klog.Duration) klog.Range { return nil }, func(klog.OpenRange) klog.Range { return nil })
					zz.Assert(g[5].kind == 's' && g[6].kind == 'n' && g[7].kind == 's' && g[8].kind == 'n', "entry-object-keys")
					zz.Assert(g[5].s == rg.Start().ToString() && g[7].s == rg.End().ToString(), "start-end-notation")
					zz.Assert(g[6].n == rg.Start().MidnightOffset().InMinutes() && g[8].n == rg.End().MidnightOffset().InMinutes(), "start-end-mins")
					zz.Assert(g[4].n == g[8].n-g[6].n, "range-total-is-end-minus-start")
					zz.Assert(g[4].n == e.Duration().InMinutes(), "entry-total-mins")
				case "open_range":
					or := klog.Unbox[klog.OpenRange](&e, func(klog.Range) klog.OpenRange { return nil },
						func(klog.Duration) klog.OpenRange { return nil }, func(x klog.OpenRange) klog.OpenRange { return x })
					zz.Assert(g[5].kind == 's' && g[6].kind == 'n', "entry-object-keys")
					zz.Assert(g[5].s == or.Start().ToString(), "start-end-notation")
					zz.Assert(g[6].n == or.Start().MidnightOffset().InMinutes(), "start-end-mins")
					zz.Assert(g[4].n == 0, "open-range-counts-zero")
				default:
					zz.Assert(g[4].n == e.Duration().InMinutes(), "entry-total-mins")
				}
				total += g[4].n
			}
		}
		zz.Assert(f[3].n == total, "total-mins-is-sum-of-entries")
		zz.Assert(f[7].n == f[3].n-f[5].n, "diff-is-total-minus-should")
	}
}

func zzDigitStr(name string, k int) string {
	s := zz.String(name, k)
	for i := 0; i < k; i++ {
		zz.Assume(zz.And(s[i] >= '0', s[i] <= '9'))
	}
	return s
}

// ZZ_C20_Values: one record whose entry is a range / open range / duration with
// symbolic digits (ranges: every hour 00-24 with minutes 00/01/59 on both ends and day
// shifts on either side; open ranges and signed durations: all digits symbolic); the JSON text must carry every documented key and
// the denoted values.
func ZZ_C20_Values() {
	var line string
	switch zz.Param("kind") {
	case 0:
		if zz.ParamOr("small", 0) == 1 {
			line = []string{"", "<"}[zz.Choose(2)] + zzDigitStr("sh", 2) + ":00 - " + []string{"23:59", "24:00", "00:00>", "00:00"}[zz.Choose(4)]
			break
		}
		mins := []string{"00", "01", "59"}
		line = []string{"", "<"}[zz.Choose(2)] + zzDigitStr("sh", 2) + ":" + mins[zz.Choose(3)] + " - " +
			zzDigitStr("eh", 2) + ":" + mins[zz.Choose(3)] + []string{"", ">"}[zz.Choose(2)]
	case 1:
		line = []string{"", "<", ">"}[zz.Choose(3)]
		if line == ">" {
			line = zzDigitStr("sh", 2) + ":" + zzDigitStr("sm", 2) + "> - ?"
		} else {
			line += zzDigitStr("sh", 2) + ":" + zzDigitStr("sm", 2) + " - ?"
		}
	case 2:
		line = []string{"", "-", "+"}[zz.Choose(3)] + zzDigitStr("h", 1) + "h" + zzDigitStr("m", 2) + "m"
	case 3:
		// multi-line summaries: starting on the entry line or below it, two symbolic bytes
		b := zz.String("b", 2)
		for i := 0; i < 2; i++ {
			zz.Assume(zz.And(b[i] > ' ', b[i] < 0x7f))
		}
		body := []string{"    1h\n        below " + b + " #t\n", "    1h first " + b + "\n        second\n        third #x=" + b + "\n",
			"    8:00 - ?\n        " + b + "\n"}[zz.Choose(3)]
		text := "2020-01-01\nRecord " + b + "\nsummary #r\n" + body
		rs, _, errs := parser.NewSerialParser().Parse(text)
		if errs != nil {
			zz.Stop()
		}
		zzCheckRecordsJSON(json.ToJson(rs, nil, zz.Param("pretty") == 1), rs)
		return
	}
	text := "2020-01-01 (" + zzDigitStr("sd", 1) + "h!)\n    " + line + " s\n"
	rs, _, errs := parser.NewSerialParser().Parse(text)
	if errs != nil {
		zz.Stop()
	}
	out := json.ToJson(rs, nil, zz.Param("pretty") == 1)
	zzCheckRecordsJSON(out, rs)
}
