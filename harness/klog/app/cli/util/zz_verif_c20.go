package util

import (
	gojson "encoding/json"

	"github.com/jotaen/klog/klog"
	"github.com/jotaen/klog/klog/parser"
	"github.com/jotaen/klog/klog/parser/json"
	zz "github.com/jotaen/klog/klog/zzverif"
)

// zzEnvelope returns the envelope klog hands to the JSON encoder.  Under the
// engine that is the recorded value tree (encoding/json is an opaque codec
// there); natively the emitted text is decoded again with encoding/json, which
// additionally checks well-formedness of the real output for every replayed witness.
func zzEnvelope(text string) (*json.Envelop, bool) {
	if e, ok := zz.Encoded().(*json.Envelop); ok {
		return e, true
	}
	if zz.Symbolic() {
		return nil, false
	}
	var raw struct {
		Records []struct {
			json.RecordView
			Entries []gojson.RawMessage `json:"entries"`
		} `json:"records"`
		Errors []json.ErrorView `json:"errors"`
	}
	if err := gojson.Unmarshal([]byte(text), &raw); err != nil {
		return nil, false
	}
	env := &json.Envelop{Errors: raw.Errors}
	if raw.Records != nil {
		env.Records = []json.RecordView{}
	}
	for _, r := range raw.Records {
		v := r.RecordView
		v.Entries = nil
		for _, e := range r.Entries {
			var rv json.RangeView
			if gojson.Unmarshal(e, &rv) != nil {
				return nil, false
			}
			switch rv.Type {
			case "range":
				v.Entries = append(v.Entries, rv)
			case "open_range":
				v.Entries = append(v.Entries, rv.OpenRangeView)
			default:
				v.Entries = append(v.Entries, rv.EntryView)
			}
		}
		env.Records = append(env.Records, v)
	}
	return env, true
}

// ZZ_C20_Json: exactly one of records / errors is non-null; record objects
// reproduce the parsed data; totals are consistent.
func ZZ_C20_Json() {
	d := parser.ZZGenDoc(zz.Param("L"), zz.Param("faults") == 1)
	rs, _, errs := parser.NewSerialParser().Parse(d.Text())
	text := json.ToJson(rs, errs, zz.Param("pretty") == 1)
	env, ok := zzEnvelope(text)
	zz.Assert(ok, "json-output-available")
	if !ok {
		return
	}
	zz.Assert((env.Records == nil) != (env.Errors == nil), "exactly-one-of-records-and-errors")
	if errs != nil {
		zz.Assert(env.Records == nil && len(env.Errors) == len(errs), "errors-listed")
		if len(env.Errors) == len(errs) {
			for i, v := range env.Errors {
				zz.Assert(v.Line == errs[i].LineNumber() && v.Column == errs[i].Position()+1 && v.Length == errs[i].Length(), "error-position-as-in-terminal-report")
				zz.Assert(v.Title == errs[i].Title() && v.Details == errs[i].Details(), "error-message-as-in-terminal-report")
			}
		}
		return
	}
	zz.Assert(env.Errors == nil && len(env.Records) == len(rs), "records-listed-in-order")
	if len(env.Records) != len(rs) {
		return
	}
	for i, v := range env.Records {
		r := rs[i]
		zz.Assert(v.Date == r.Date().ToString(), "record-date")
		sum := ""
		for j, l := range r.Summary().Lines() {
			if j > 0 {
				sum += "\n"
			}
			sum += l
		}
		zz.Assert(v.Summary == sum, "record-summary")
		zz.Assert(v.ShouldTotalMins == r.ShouldTotal().InMinutes(), "should-total-mins")
		zz.Assert(len(v.Entries) == len(r.Entries()), "entries-in-order")
		total := 0
		if len(v.Entries) == len(r.Entries()) {
			for j, ev := range v.Entries {
				e := r.Entries()[j]
				kind := klog.Unbox[string](&e, func(klog.Range) string { return "range" },
					func(klog.Duration) string { return "duration" }, func(klog.OpenRange) string { return "open_range" })
				switch x := ev.(type) {
				case json.RangeView:
					zz.Assert(kind == "range" && x.Type == "range", "entry-type")
					zz.Assert(x.TotalMins == x.EndMins-x.StartMins, "range-total-is-end-minus-start")
					zz.Assert(x.TotalMins == e.Duration().InMinutes(), "entry-total-mins")
					total += x.TotalMins
				case json.OpenRangeView:
					zz.Assert(kind == "open_range" && x.Type == "open_range", "entry-type")
					zz.Assert(x.TotalMins == 0, "open-range-counts-zero")
				case json.EntryView:
					zz.Assert(kind == "duration" && x.Type == "duration", "entry-type")
					zz.Assert(x.TotalMins == e.Duration().InMinutes(), "entry-total-mins")
					total += x.TotalMins
				default:
					zz.Assert(false, "entry-view-kind")
				}
			}
		}
		zz.Assert(v.TotalMins == total, "total-mins-is-sum-of-entries")
		zz.Assert(v.DiffMins == v.TotalMins-v.ShouldTotalMins, "diff-is-total-minus-should")
	}
}
