package util

import (
	"github.com/jotaen/klog/klog"
	"github.com/jotaen/klog/klog/app"
	tf "github.com/jotaen/klog/klog/app/cli/terminalformat"
	"github.com/jotaen/klog/klog/parser"
	"github.com/jotaen/klog/klog/parser/reconciling"
	"github.com/jotaen/klog/klog/service"
	zz "github.com/jotaen/klog/klog/zzverif"
)

func zzPrint(rs []klog.Record) string {
	return parser.SerialiseRecords(app.NewSerialiser(tf.NewStyler(tf.COLOUR_THEME_NO_COLOUR), false), rs...).ToString()
}

func zzEntryText(e klog.Entry) string {
	return klog.Unbox[string](&e,
		func(r klog.Range) string { return r.ToString() },
		func(d klog.Duration) string { return d.ToString() },
		func(o klog.OpenRange) string { return o.ToString() })
}

// ZZ_C09_PrintRoundtrip: for every conforming generated document, the unstyled
// print output parses to the same records with the same notation, and printing
// that again reproduces it.
func ZZ_C09_PrintRoundtrip() {
	d := parser.ZZGenDoc(zz.Param("L"), false)
	if !d.Accept() {
		zz.Stop() // (a second open range can arise even without fault injection)
	}
	rs, _, errs := parser.NewSerialParser().Parse(d.Text())
	zz.Assert(errs == nil, "conforming-document-accepted")
	if errs != nil {
		return
	}
	out := zzPrint(rs)
	zz.Observe("printed", out)
	rs2, _, errs2 := parser.NewSerialParser().Parse(out)
	zz.Assert(errs2 == nil, "printed-file-is-valid")
	if errs2 != nil {
		return
	}
	d.CheckRecords(rs2) // same dates, should-totals, summaries, entry kinds and values as the text denotes
	zz.Assert(len(rs2) == len(rs), "same-number-of-records")
	if len(rs2) == len(rs) {
		for i := range rs {
			a, b := rs[i], rs2[i]
			zz.Assert(a.Date().ToString() == b.Date().ToString(), "date-notation-kept")
			zz.Assert(a.ShouldTotal().InMinutes() == b.ShouldTotal().InMinutes(), "should-total-kept")
			if len(a.Entries()) == len(b.Entries()) {
				for j := range a.Entries() {
					zz.Assert(zzEntryText(a.Entries()[j]) == zzEntryText(b.Entries()[j]), "entry-notation-kept")
				}
			}
		}
	}
	zz.Assert(zzPrint(rs2) == out, "print-is-a-fixed-point")
	// layout normalisation: LF only, four-space indentation, one blank line between records
	crs := false
	for i := 0; i < len(out); i++ {
		crs = zz.Or(crs, out[i] == '\r')
	}
	zz.Assert(!crs, "printed-file-uses-LF")
}

// ZZ_C02_EvalText: the total / should-total / diff of a parsed document equal
// the values its text denotes (composition parser -> model -> evaluation).
func ZZ_C02_EvalText() {
	d := parser.ZZGenDoc(zz.Param("L"), false)
	rs, _, errs := parser.NewSerialParser().Parse(d.Text())
	if errs != nil {
		zz.Stop()
	}
	total, should := d.RefTotal()
	zz.Assert(service.Total(rs...).InMinutes() == total, "total-of-text")
	zz.Assert(service.ShouldTotalSum(rs...).InMinutes() == should, "should-total-of-text")
	zz.Assert(service.Diff(service.ShouldTotalSum(rs...), service.Total(rs...)).InMinutes() == total-should, "diff-of-text")
}

// ZZ_C08_NoopReconcile: reconciling without an operation writes back the identical text.
func ZZ_C08_NoopReconcile() {
	d := parser.ZZGenDoc(zz.Param("L"), false)
	rs, bs, errs := parser.NewSerialParser().Parse(d.Text())
	if errs != nil || len(rs) == 0 {
		zz.Stop()
	}
	k := zz.Choose(len(rs))
	rec := reconciling.NewReconcilerAtRecord(rs[k].Date())(rs, bs)
	zz.Assert(rec != nil, "record-found")
	if rec == nil {
		return
	}
	res, err := rec.MakeResult()
	zz.Assert(err == nil, "noop-result-valid")
	if err == nil {
		zz.Assert(res.AllSerialised == d.Text(), "noop-reconcile-writes-identical-text")
	}
}

// ZZ_C07_RealParse: serial and parallel parsing of generated documents (valid and
// invalid) with the real record parser agree, for every delivery order.
func ZZ_C07_RealParse() {
	d := parser.ZZGenDoc(zz.Param("L"), zz.Param("faults") == 1)
	rs, bs, errs := parser.NewSerialParser().Parse(d.Text())
	prs, pbs, perrs := parser.NewParallelParser(zz.Param("w")).Parse(d.Text())
	zz.Assert(len(prs) == len(rs) && len(pbs) == len(bs) && len(perrs) == len(errs), "parallel-same-shape")
	if len(prs) != len(rs) || len(pbs) != len(bs) || len(perrs) != len(errs) {
		return
	}
	zz.Assert(zzPrint(prs) == zzPrint(rs), "parallel-same-records")
	for i := range bs {
		zz.Assert(bs[i].OverallLineIndex(0) == pbs[i].OverallLineIndex(0) && len(bs[i].Lines()) == len(pbs[i].Lines()), "parallel-same-blocks")
	}
	for i := range errs {
		zz.Assert(errs[i].LineNumber() == perrs[i].LineNumber() && errs[i].Position() == perrs[i].Position() && errs[i].Code() == perrs[i].Code(), "parallel-same-errors")
	}
}
