package util

import (
	"github.com/jotaen/klog/klog"
	"github.com/jotaen/klog/klog/app"
	tf "github.com/jotaen/klog/klog/app/cli/terminalformat"
	"github.com/jotaen/klog/klog/parser"
	"github.com/jotaen/klog/klog/parser/reconciling"
	"github.com/jotaen/klog/klog/service"
	zz "github.com/jotaen/klog/klog/zzverif"
)

func zzPrint(rs []klog.Record) string {
	return parser.SerialiseRecords(app.NewSerialiser(tf.NewStyler(tf.COLOUR_THEME_NO_COLOUR), false), rs...).ToString()
}

func zzEntryText(e klog.Entry) string {
	return klog.Unbox[string](&e,
		func(r klog.Range) string { return r.ToString() },
		func(d klog.Duration) string { return d.ToString() },
		func(o klog.OpenRange) string { return o.ToString() })
}

// zzSameEntryFacts compares two entries through their accessors (kind, minute values,
// clock convention, dash spacing, placeholder length) - independently of ToString, which
// both sides of a print round trip share.
func zzSameEntryFacts(x, y klog.Entry) bool {
	type facts struct {
		kind, a, b, ph   int
		a24, b24, spaces bool
	}
	get := func(e klog.Entry) facts {
		return klog.Unbox[facts](&e,
			func(r klog.Range) facts {
				return facts{2, r.Start().MidnightOffset().InMinutes(), r.End().MidnightOffset().InMinutes(), 0,
					r.Start().Format().Use24HourClock, r.End().Format().Use24HourClock, r.Format().UseSpacesAroundDash}
			},
			func(d klog.Duration) facts { return facts{kind: 1, a: d.InMinutes()} },
			func(o klog.OpenRange) facts {
				return facts{3, o.Start().MidnightOffset().InMinutes(), 0, o.Format().AdditionalPlaceholderChars,
					o.Start().Format().Use24HourClock, false, o.Format().UseSpacesAroundDash}
			})
	}
	fx, fy := get(x), get(y)
	return zz.And(fx.kind == fy.kind, zz.And(zz.And(fx.a == fy.a, fx.b == fy.b), zz.And(fx.ph == fy.ph,
		zz.And(zz.Iff(fx.a24, fy.a24), zz.And(zz.Iff(fx.b24, fy.b24), zz.Iff(fx.spaces, fy.spaces))))))
}

// ZZ_C09_PrintRoundtrip: for every conforming generated document, the unstyled
// print output parses to the same records with the same notation, and printing
// that again reproduces it.
func ZZ_C09_PrintRoundtrip() {
	d := parser.ZZGenDoc(zz.Param("L"), false)
	if !d.Accept() {
		zz.Stop() // (a second open range can arise even without fault injection)
	}
	rs, _, errs := parser.NewSerialParser().Parse(d.Text())
	zz.Assert(errs == nil, "conforming-document-accepted")
	if errs != nil {
		return
	}
	out := zzPrint(rs)
	zz.Observe("printed", out)
	rs2, _, errs2 := parser.NewSerialParser().Parse(out)
	zz.Assert(errs2 == nil, "printed-file-is-valid")
	if errs2 != nil {
		return
	}
	d.CheckRecords(rs2) // same dates, should-totals, summaries, entry kinds and values as the text denotes
	zz.Assert(len(rs2) == len(rs), "same-number-of-records")
	if len(rs2) == len(rs) {
		for i := range rs {
			a, b := rs[i], rs2[i]
			zz.Assert(a.Date().ToString() == b.Date().ToString(), "date-notation-kept")
			zz.Assert(a.ShouldTotal().InMinutes() == b.ShouldTotal().InMinutes(), "should-total-kept")
			if len(a.Entries()) == len(b.Entries()) {
				for j := range a.Entries() {
					zz.Assert(zzEntryText(a.Entries()[j]) == zzEntryText(b.Entries()[j]), "entry-notation-kept")
					zz.Assert(zzSameEntryFacts(a.Entries()[j], b.Entries()[j]), "entry-value-and-notation-kept")
				}
			}
		}
	}
	zz.Assert(zzPrint(rs2) == out, "print-is-a-fixed-point")
	// layout normalisation: LF only, four-space indentation, one blank line between records
	crs := false
	for i := 0; i < len(out); i++ {
		crs = zz.Or(crs, out[i] == '\r')
	}
	zz.Assert(!crs, "printed-file-uses-LF")
}

// ZZ_C02_EvalText: the total / should-total / diff of a parsed document equal
// the values its text denotes (composition parser -> model -> evaluation).
func ZZ_C02_EvalText() {
	d := parser.ZZGenDoc(zz.Param("L"), false)
	rs, _, errs := parser.NewSerialParser().Parse(d.Text())
	if errs != nil {
		zz.Stop()
	}
	total, should := d.RefTotal()
	zz.Assert(service.Total(rs...).InMinutes() == total, "total-of-text")
	zz.Assert(service.ShouldTotalSum(rs...).InMinutes() == should, "should-total-of-text")
	zz.Assert(service.Diff(service.ShouldTotalSum(rs...), service.Total(rs...)).InMinutes() == total-should, "diff-of-text")
}

// ZZ_C08_NoopReconcile: reconciling without an operation writes back the identical text.
func ZZ_C08_NoopReconcile() {
	d := parser.ZZGenDoc(zz.Param("L"), false)
	rs, bs, errs := parser.NewSerialParser().Parse(d.Text())
	if errs != nil || len(rs) == 0 {
		zz.Stop()
	}
	k := zz.Choose(len(rs))
	rec := reconciling.NewReconcilerAtRecord(rs[k].Date())(rs, bs)
	zz.Assert(rec != nil, "record-found")
	if rec == nil {
		return
	}
	res, err := rec.MakeResult()
	zz.Assert(err == nil, "noop-result-valid")
	if err == nil {
		zz.Assert(res.AllSerialised == d.Text(), "noop-reconcile-writes-identical-text")
	}
}

// ZZ_C07_RealParse: serial and parallel parsing of generated documents (valid and
// invalid) with the real record parser agree, for every delivery order.
func ZZ_C07_RealParse() {
	d := parser.ZZGenDoc(zz.Param("L"), zz.Param("faults") == 1)
	rs, bs, errs := parser.NewSerialParser().Parse(d.Text())
	prs, pbs, perrs := parser.NewParallelParser(zz.Param("w")).Parse(d.Text())
	zz.Assert(len(prs) == len(rs) && len(pbs) == len(bs) && len(perrs) == len(errs), "parallel-same-shape")
	if len(prs) != len(rs) || len(pbs) != len(bs) || len(perrs) != len(errs) {
		return
	}
	zz.Assert(zzPrint(prs) == zzPrint(rs), "parallel-same-records")
	for i := range bs {
		zz.Assert(bs[i].OverallLineIndex(0) == pbs[i].OverallLineIndex(0) && len(bs[i].Lines()) == len(pbs[i].Lines()), "parallel-same-blocks")
	}
	for i := range errs {
		zz.Assert(errs[i].LineNumber() == perrs[i].LineNumber() && errs[i].Position() == perrs[i].Position() && errs[i].Code() == perrs[i].Code(), "parallel-same-errors")
	}
}

func zzC09Digits(name string, k int) string {
	s := zz.String(name, k)
	for i := 0; i < k; i++ {
		zz.Assume(zz.And(s[i] >= '0', s[i] <= '9'))
	}
	return s
}

// ZZ_C09_PrintValues: one record whose literals have symbolic digits - the year of
// the date (a century window, both separators), a should-total, and one entry (range with
// day shifts, open range with 1-3 placeholder characters, signed duration) - or
// (kind 3) whose summary lines are arbitrary bytes.  Whatever the parser accepts,
// the printed file must be valid, denote the same values in the same notation and
// be a fixed point of printing.
func ZZ_C09_PrintValues() {
	sep := []string{"-", "/"}[zz.Choose(2)]
	text := "2020" + sep + "06" + sep + "05"
	if zz.Param("kind") == 4 {
		c := zz.Param("century") // the calendar arithmetic behind date validation needs century windows (see C15 / C16)
		text = string(rune('0'+c/10)) + string(rune('0'+c%10)) + zzC09Digits("y", 2) + sep + "06" + sep + "05"
		if zz.Choose(2) == 1 {
			text += " (" + []string{"", "-"}[zz.Choose(2)] + zzC09Digits("sd", 1) + "h" + zzC09Digits("sm", 2) + "m!)"
		}
	}
	text += "\n"
	switch zz.Param("kind") {
	case 0:
		dash := []string{" - ", "-"}[zz.Choose(2)]
		text += "    " + []string{"", "<"}[zz.Choose(2)] + zzC09Digits("sh", 2) + ":" + []string{"00", "07", "59"}[zz.Choose(3)] + dash +
			zzC09Digits("eh", 2) + ":" + []string{"00", "59"}[zz.Choose(2)] + []string{"", ">"}[zz.Choose(2)] + "\n"
	case 1:
		text += "    " + []string{"", "<"}[zz.Choose(2)] + []string{"", "1"}[zz.Choose(2)] + zzC09Digits("sh", 1) + ":" + zzC09Digits("sm", 2) + []string{"", "am", "pm"}[zz.Choose(3)] +
			[]string{" - ", "-"}[zz.Choose(2)] + []string{"?", "??", "???"}[zz.Choose(3)] + "\n"
	case 2:
		text += "    " + []string{"", "-", "+"}[zz.Choose(3)] + zzC09Digits("h", 2) + "h" + zzC09Digits("m", 2) + "m\n"
	case 3:
		s := zz.String("sum", zz.Param("n"))
		for i := 0; i < len(s); i++ {
			zz.Assume(s[i] != '\n')
		}
		text += s + "\n    1h " + s + "\n"
	case 4:
		text += "    1h\n"
	}
	rs, _, errs := parser.NewSerialParser().Parse(text)
	if errs != nil {
		zz.Stop()
	}
	out := zzPrint(rs)
	zz.Observe("printed", out)
	rs2, _, errs2 := parser.NewSerialParser().Parse(out)
	// Finding F8 (recorded, see known_findings.json): a summary line whose text ends in a
	// carriage return cannot survive being printed with LF line endings.  That input
	// class gets an assertion id of its own so that nothing else hides behind it.
	if len(rs) == 1 {
		crTail := false
		tails := func(ls []string) {
			for _, l := range ls {
				if len(l) > 0 && l[len(l)-1] == '\r' {
					crTail = true
				}
			}
		}
		tails(rs[0].Summary().Lines())
		for _, e := range rs[0].Entries() {
			tails(e.Summary().Lines())
		}
		if crTail {
			zz.Assert(errs2 == nil && len(rs2) == 1 && zzSameLines(rs[0].Summary().Lines(), rs2[0].Summary().Lines()) && zzPrint(rs2) == out,
				"summary-ending-in-CR-survives-print")
			return
		}
	}
	zz.Assert(errs2 == nil, "printed-file-is-valid")
	if errs2 != nil {
		return
	}
	zz.Assert(len(rs2) == len(rs) && len(rs) == 1, "same-number-of-records")
	if len(rs2) != 1 || len(rs) != 1 {
		return
	}
	a, b := rs[0], rs2[0]
	zz.Assert(a.Date().ToString() == b.Date().ToString() && a.Date().ToString() == text[:10], "date-notation-kept")
	zz.Assert(a.Date().IsEqualTo(b.Date()), "date-kept")
	zz.Assert(a.ShouldTotal().InMinutes() == b.ShouldTotal().InMinutes(), "should-total-kept")
	zz.Assert(len(a.Entries()) == len(b.Entries()), "same-entries")
	if len(a.Entries()) == len(b.Entries()) {
		for j := range a.Entries() {
			zz.Assert(zzEntryText(a.Entries()[j]) == zzEntryText(b.Entries()[j]), "entry-notation-kept")
			zz.Assert(a.Entries()[j].Duration().InMinutes() == b.Entries()[j].Duration().InMinutes(), "entry-value-kept")
			zz.Assert(zzSameEntryFacts(a.Entries()[j], b.Entries()[j]), "entry-value-and-notation-kept")
			la, lb := a.Entries()[j].Summary().Lines(), b.Entries()[j].Summary().Lines()
			same := len(la) == len(lb)
			for k := 0; same && k < len(la); k++ {
				same = la[k] == lb[k]
			}
			zz.Assert(same, "entry-summary-kept")
		}
	}
	la, lb := a.Summary().Lines(), b.Summary().Lines()
	same := len(la) == len(lb)
	for k := 0; same && k < len(la); k++ {
		same = la[k] == lb[k]
	}
	zz.Assert(same, "record-summary-kept")
	zz.Assert(zzPrint(rs2) == out, "print-is-a-fixed-point")
}

func zzSameLines(a, b []string) bool {
	if len(a) != len(b) {
		return false
	}
	for i := range a {
		if a[i] != b[i] {
			return false
		}
	}
	return true
}
