package util

import (
	"github.com/jotaen/klog/klog"
	"github.com/jotaen/klog/klog/app"
	tf "github.com/jotaen/klog/klog/app/cli/terminalformat"
	"github.com/jotaen/klog/klog/parser"
	"github.com/jotaen/klog/klog/parser/json"
	"github.com/jotaen/klog/klog/service"
	zz "github.com/jotaen/klog/klog/zzverif"
)

// zzParseAndEvaluate runs the whole read-only pipeline on text and asserts
// totality: no panic, result shape, all error renderings work.
func zzParseAndEvaluate(text string) { zzParseAndEvaluateOpt(text, true) }

// zzParseAndEvaluateOpt: render=false skips the decimal renderings of the
// values (digit extraction of large symbolic numbers is division-heavy and
// cannot panic); parsing and the evaluation arithmetic are always covered.
func zzParseAndEvaluateOpt(text string, render bool) {
	// An uncaught panic anywhere below ends the path as a violation "no-panic"
	// carrying the panic site (that site is what known findings are keyed on).
	recs, blocks, errs := parser.NewSerialParser().Parse(text)
	zz.Observe("nrecs", len(recs))
	zz.Observe("nerrs", len(errs))
	if errs == nil {
		zz.Assert(len(recs) == len(blocks), "one-block-per-record")
		total := service.Total(recs...)
		should := service.ShouldTotalSum(recs...)
		_ = service.Diff(should, total)
		if !render {
			return
		}
		_ = total.ToString()
		_ = parser.SerialiseRecords(app.NewSerialiser(tf.NewStyler(tf.COLOUR_THEME_NO_COLOUR), false), recs...).ToString()
		_ = json.ToJson(recs, nil, false)
	} else {
		zz.Assert(len(errs) >= 1, "errors-nonempty")
		zz.Assert(recs == nil && blocks == nil, "no-records-with-errors")
		for _, e := range errs {
			_ = e.LineNumber()
			_ = e.LineText()
			_ = e.Position()
			_ = e.Length()
			_ = e.Message()
		}
		_ = PrettifyParsingError(app.NewParserErrors(errs), tf.NewStyler(tf.COLOUR_THEME_NO_COLOUR)).Error()
		_ = json.ToJson(nil, errs, false)
	}
}

// ZZ_C06_TotalShort: every byte string of length n.
func ZZ_C06_TotalShort() {
	n := zz.Param("n")
	zzParseAndEvaluate(zz.String("t", n))
}

// ZZ_C06_TotalTail: a valid prefix followed by n arbitrary bytes.
func ZZ_C06_TotalTail() {
	n := zz.Param("n")
	prefixes := []string{"2020-01-01\n", "2020-01-01 ", "2020-01-01\n  1h\n    ", "2020-01-01\n\t", "2020-01-01\n  8:00-"}
	p := prefixes[zz.Param("prefix")]
	zzParseAndEvaluate(p + zz.String("t", n))
}

// ZZ_C06_Digits: duration / should-total / time templates with long digit runs.
func ZZ_C06_Digits() {
	n := zz.Param("n")
	digits := func(name string, k int) string {
		s := zz.String(name, k)
		for i := 0; i < k; i++ {
			zz.Assume(zz.And(s[i] >= '0', s[i] <= '9'))
		}
		return s
	}
	switch zz.Param("shape") {
	case 0:
		zzParseAndEvaluateOpt("2020-01-01\n  "+digits("h", n)+"h\n", false)
	case 1:
		zzParseAndEvaluateOpt("2020-01-01\n  -"+digits("m", n)+"m\n", false)
	case 2:
		zzParseAndEvaluateOpt("2020-01-01 ("+digits("h", n)+"h!)\n", false)
	case 3:
		zzParseAndEvaluateOpt("2020-01-01\n  "+digits("h", n)+"h"+digits("m", 2)+"m\n", false)
	case 4:
		zzParseAndEvaluateOpt("2020-01-01\n  "+digits("h", n)+":00-9:00\n", true)
	case 5:
		// two large entries: the sum can overflow even if each parses
		zzParseAndEvaluateOpt("2020-01-01\n  "+digits("a", n)+"m\n  "+digits("b", n)+"m\n", false)
	}
}

// ZZ_C06_EvalTotal: evaluation of records holding arbitrary int values never panics.
func ZZ_C06_EvalTotal() {
	d1 := zz.Int("d1")
	d2 := zz.Int("d2")
	s1 := zz.Int("s1")
	// values a file can denote: the parser rejects magnitudes beyond MaxInt64
	const minInt = -9223372036854775808
	zz.Assume(zz.And(d1 != minInt, zz.And(d2 != minInt, s1 != minInt)))
	date, _ := klog.NewDate(2020, 1, 1)
	r1 := klog.NewRecord(date)
	r1.AddDuration(klog.NewDuration(0, d1), nil)
	r1.SetShouldTotal(klog.NewDuration(0, s1))
	r2 := klog.NewRecord(date)
	r2.AddDuration(klog.NewDuration(0, d2), nil)
	total := service.Total(r1, r2)
	_ = service.Diff(service.ShouldTotalSum(r1, r2), total)
}
