package util

import (
	"strconv"
	"strings"

	"github.com/jotaen/klog/klog/app"
	tf "github.com/jotaen/klog/klog/app/cli/terminalformat"
	"github.com/jotaen/klog/klog/parser"
	"github.com/jotaen/klog/klog/parser/json"
	"github.com/jotaen/klog/klog/parser/txt"
	zz "github.com/jotaen/klog/klog/zzverif"
)

func zzRuneCount(s string) int { return len([]rune(s)) }

// ZZ_C10_ErrPos: documents with one rule violation injected at any line: every
// error names an existing line and quotes it, position/length stay inside the
// line (+1), errors ascend, the first error is on the faulty line; serial and
// parallel parsing report the same errors; both renderings work and agree.
func ZZ_C10_ErrPos() {
	d := parser.ZZGenDoc(zz.Param("L"), true)
	if d.Accept() {
		zz.Stop() // C01 covers the conforming documents
	}
	text := d.Text()
	lines := d.Lines()
	_, _, errs := parser.NewSerialParser().Parse(text)
	zz.Observe("nerrs", len(errs))
	zz.Assert(len(errs) >= 1, "invalid-text-reports-errors")
	if len(errs) == 0 {
		return
	}
	prev := 0
	for i, e := range errs {
		ln := e.LineNumber()
		zz.Assert(ln >= 1 && ln <= len(lines), "error-line-exists")
		if ln < 1 || ln > len(lines) {
			return
		}
		zz.Assert(e.LineText() == lines[ln-1], "error-quotes-its-line")
		zz.Assert(e.Position() >= 0 && e.Length() >= 0, "position-and-length-nonnegative")
		zz.Assert(e.Position()+e.Length() <= zzRuneCount(lines[ln-1])+1, "position-and-length-within-line")
		zz.Assert(ln >= prev, "errors-in-ascending-line-order")
		prev = ln
		if i == 0 {
			zz.Observe("first-error-line", ln)
			zz.Assert(ln == d.FaultLine()+1, "first-error-on-the-faulty-line")
		}
	}
	// parallel parsing reports the same errors
	if w := zz.Param("w"); w > 1 {
		_, _, perrs := parser.NewParallelParser(w).Parse(text)
		zz.Assert(len(perrs) == len(errs), "parallel-same-error-count")
		if len(perrs) == len(errs) {
			for i := range errs {
				same := errs[i].LineNumber() == perrs[i].LineNumber() && errs[i].Position() == perrs[i].Position() &&
					errs[i].Length() == perrs[i].Length() && errs[i].Code() == perrs[i].Code()
				zz.Assert(same, "parallel-same-error")
				zz.Assert(errs[i].LineText() == perrs[i].LineText(), "parallel-same-error-line-text")
			}
		}
	}
	zzCheckErrorRenderings(errs)
}

// zzCheckErrorRenderings: the terminal and JSON renderings of errs.
func zzCheckErrorRenderings(errs []txt.Error) {
	// renderings
	out := PrettifyParsingError(app.NewParserErrors(errs), tf.NewStyler(tf.COLOUR_THEME_NO_COLOUR)).Error()
	zz.Assert(strings.Count(out, "[SYNTAX ERROR]") == len(errs), "terminal-rendering-lists-every-error")
	// the terminal rendering quotes exactly the faulty line (tabs shown as spaces) and puts
	// `Length` carets under column `Position`; built here without fmt
	want := ""
	for _, e := range errs {
		quoted := ""
		lt := e.LineText()
		for i := 0; i < len(lt); i++ {
			if lt[i] == '\t' {
				quoted += " "
			} else {
				quoted += lt[i : i+1]
			}
		}
		want += "\n[SYNTAX ERROR] in line " + strconv.Itoa(e.LineNumber()) + "\n"
		want += "    " + quoted + "\n"
		want += "    " + strings.Repeat(" ", e.Position()) + strings.Repeat("^", e.Length()) + "\n"
		want += Reflower.Reflow(e.Message(), []string{"    "}) + "\n"
	}
	zz.Assert(out == want, "terminal-rendering-shows-line-and-carets-at-the-reported-position")
	// the JSON rendering: the emitted text, read by the reference JSON reader, carries the same positions and messages
	zzCheckJSON(json.ToJson(nil, errs, false), nil, errs)
}

// ZZ_C10_FaultyLine: a malformed entry line whose rest is n ARBITRARY bytes (no line
// break): one error, on that line, quoted verbatim in both renderings.
func ZZ_C10_FaultyLine() {
	rest := zz.String("rest", zz.Param("n"))
	for i := 0; i < len(rest); i++ {
		zz.Assume(zz.And(rest[i] != '\n', rest[i] != '\r'))
	}
	line := "    2h3 " + rest
	text := "2020-01-01\n" + line + "\n"
	_, _, errs := parser.NewSerialParser().Parse(text)
	zz.Assert(len(errs) == 1, "one-faulty-line-one-error")
	if len(errs) != 1 {
		return
	}
	zz.Assert(errs[0].LineNumber() == 2 && errs[0].LineText() == line, "error-quotes-its-line")
	zz.Assert(errs[0].Position() == 4 && errs[0].Length() == 3, "first-error-on-the-faulty-line")
	zzCheckErrorRenderings(errs)
}

var _ txt.Error
