package cli

import (
	gotime "time"

	"github.com/jotaen/klog/klog"
	"github.com/jotaen/klog/klog/app"
	zz "github.com/jotaen/klog/klog/zzverif"
)

// ---------------------------------------------------------------------------
// C11, second half: generated dates and times follow the file's date separator,
// clock convention, dash spacing and placeholder length unless the user passed an
// explicit value or configured a preference.
//
// Files are built from records that each exhibit a choice of the four notation
// properties (or do not exhibit them: a duration entry shows neither clock nor
// dash spacing).  Oracle, from the property text: a property the target record
// exhibits is used; otherwise the unanimous choice of the records that exhibit
// it; otherwise (nobody exhibits it) the specification's recommended notation;
// disagreement among the others is asserted for determinism only.
// ---------------------------------------------------------------------------

type zzNote struct {
	dash, h24, sp bool
	ph            int // additional placeholder characters
	kind          int // 0 duration, 1 range, 2 open range
}

func zzChooseNote() zzNote {
	n := zzNote{dash: zz.Choose(2) == 0, kind: zz.Choose(3), h24: true, sp: true}
	if n.kind >= 1 {
		n.h24 = zz.Choose(2) == 0
		n.sp = zz.Choose(2) == 0
	}
	if n.kind == 2 {
		n.ph = zz.Choose(3)
	}
	return n
}

func (n zzNote) record(day int) string {
	sep := "-"
	if !n.dash {
		sep = "/"
	}
	s := "2020" + sep + "06" + sep + "0" + string(rune('0'+day)) + "\n"
	am := ""
	if !n.h24 {
		am = "am"
	}
	d := " - "
	if !n.sp {
		d = "-"
	}
	switch n.kind {
	case 0:
		s += "    45m\n"
	case 1:
		s += "    9:00" + am + d + "10:30" + am + " work\n"
	case 2:
		s += "    9:00" + am + d + "?" + "??"[:n.ph] + " work\n"
	}
	return s
}

// zzVote: (value, determined) of one property given the target's own exhibit and
// the votes of all exhibiting records.
type zzTally struct {
	votes []int
}

func (t *zzTally) add(v int) { t.votes = append(t.votes, v) }
func (t *zzTally) result(def int) (int, bool) {
	if len(t.votes) == 0 {
		return def, true
	}
	for _, v := range t.votes {
		if v != t.votes[0] {
			return 0, false
		}
	}
	return t.votes[0], true
}

func zzB(b bool) int {
	if b {
		return 1
	}
	return 0
}

func ZZ_C11_Notation() {
	nOther := zz.Param("n")
	cmd := zz.Param("cmd")
	var recs []zzNote
	for i := 0; i < nOther; i++ {
		recs = append(recs, zzChooseNote())
	}
	hasTarget := zz.Choose(2) == 1
	var target zzNote
	if hasTarget {
		target = zzChooseNote()
	}
	file := ""
	var tDash, tH24, tSp, tPh zzTally
	vote := func(n zzNote) {
		tDash.add(zzB(n.dash))
		if n.kind >= 1 {
			tH24.add(zzB(n.h24))
			tSp.add(zzB(n.sp))
		}
		if n.kind == 2 {
			tPh.add(n.ph)
		}
	}
	for i, n := range recs {
		if i > 0 {
			file += "\n"
		}
		file += n.record(1 + i)
		vote(n)
	}
	if hasTarget {
		if file != "" {
			file += "\n"
		}
		file += target.record(6)
		vote(target)
	}
	// expected notation
	dash, dashOK := tDash.result(1)
	h24, h24OK := tH24.result(1)
	sp, spOK := tSp.result(1)
	ph, phOK := tPh.result(0)
	if hasTarget {
		dash, dashOK = zzB(target.dash), true
		if target.kind >= 1 {
			h24, h24OK, sp, spOK = zzB(target.h24), true, zzB(target.sp), true
		}
		if target.kind == 2 {
			ph, phOK = target.ph, true
		}
	}
	now := gotime.Date(2020, 6, 6, 13, 5, 0, 0, gotime.UTC)
	ctx := newZZContext(file, now)
	// configured preferences
	cfg := zz.Choose(3)
	switch cfg {
	case 1:
		e := app.FromConfigFile{FileContents: "date_format = YYYY/MM/DD\ntime_convention = 12h\n"}.Apply(ctx.config)
		zz.Assert(e == nil, "config-accepted")
		dash, dashOK, h24, h24OK = 0, true, 0, true
	case 2:
		e := app.FromConfigFile{FileContents: "date_format = YYYY-MM-DD\ntime_convention = 24h\n"}.Apply(ctx.config)
		zz.Assert(e == nil, "config-accepted")
		dash, dashOK, h24, h24OK = 1, true, 1, true
	}
	timeText := func(h24 int) string {
		if h24 == 1 {
			return "13:05"
		}
		return "1:05pm"
	}
	dateText := func(dash int) string {
		if dash == 1 {
			return "2020-06-06"
		}
		return "2020/06/06"
	}
	dashText := func(sp int) string {
		if sp == 1 {
			return " - "
		}
		return "-"
	}
	var run func(c *zzContext) app.Error
	explicitTime, explicitDate := "", ""
	switch cmd {
	case 0: // start, time from the clock
		run = func(c *zzContext) app.Error { return (&Start{}).Run(c) }
	case 1: // start with explicit --time and --date values in either notation
		explicitTime = []string{"13:05", "1:05pm"}[zz.Choose(2)]
		explicitDate = []string{"2020-06-06", "2020/06/06"}[zz.Choose(2)]
		run = func(c *zzContext) app.Error {
			s := &Start{}
			s.Time, _ = klog.NewTimeFromString(explicitTime)
			s.Date, _ = klog.NewDateFromString(explicitDate)
			return s.Run(c)
		}
	case 2: // stop, time from the clock
		if !hasTarget || target.kind != 2 {
			zz.Stop()
		}
		run = func(c *zzContext) app.Error { return (&Stop{}).Run(c) }
	case 3: // create for today
		if hasTarget {
			zz.Stop()
		}
		run = func(c *zzContext) app.Error { return (&Create{}).Run(c) }
	case 4: // track a duration (only the date of a new record is generated)
		run = func(c *zzContext) app.Error { return (&Track{Entry: klog.EntrySummary{"2h"}}).Run(c) }
	}
	err := run(ctx)
	if (cmd == 0 || cmd == 1) && hasTarget && target.kind == 2 {
		zz.Assert(err != nil && ctx.fileText == file, "start-fails-iff-record-already-has-open-range")
		return
	}
	zz.Assert(err == nil, "command-succeeds-iff-model-accepts")
	if err != nil {
		return
	}
	zzParseOK(ctx.fileText)
	if cmd == 2 {
		// the open-range line: placeholder replaced by the time in the record's convention
		old := target.record(6)
		oldLine := old[len("2020-06-06\n") : len(old)-1]
		want := ""
		for i := 0; i < len(oldLine); i++ {
			if oldLine[i] == '?' {
				want = oldLine[:i] + timeText(h24) + oldLine[i+1+target.ph:]
				break
			}
		}
		found := false
		for _, l := range zzSplit(ctx.fileText) {
			found = found || zzStrip(l) == want
		}
		if h24OK {
			zz.Assert(found, "generated-time-follows-clock-convention")
		}
	} else {
		_, added := zzOnlyInsertion(file, ctx.fileText)
		for _, l := range added {
			t := zzStrip(l)
			if t == "" {
				continue
			}
			if t[0] != ' ' {
				// headline of a new record
				zz.Assert(!hasTarget, "only-the-record-lines-are-added")
				if explicitDate != "" {
					zz.Assert(t == explicitDate, "explicit-value-is-written-as-given")
				} else if dashOK {
					zz.Assert(t == dateText(dash), "generated-date-follows-date-separator")
				}
				continue
			}
			if cmd == 4 {
				zz.Assert(t == "    2h", "entry-summary-text")
				continue
			}
			// open range entry
			tt := timeText(h24)
			ok := h24OK
			if explicitTime != "" {
				tt, ok = explicitTime, true
			}
			if ok && spOK && phOK {
				zz.Assert(t == "    "+tt+dashText(sp)+"?"+"??"[:ph], "generated-open-range-follows-file-notation")
			} else if ok {
				zz.Assert(len(t) > 4+len(tt) && t[4:4+len(tt)] == tt, "generated-time-follows-clock-convention")
			}
			if !phOK {
				// no agreement on the placeholder length: still one that the file's records use
				q := 0
				for i := 0; i < len(t); i++ {
					if t[i] == '?' {
						q++
					}
				}
				used := false
				for _, v := range tPh.votes {
					used = used || v == q-1
				}
				zz.Assert(used, "inserted-style-is-one-the-file-uses")
			}
		}
	}
	// determinism, also under every iteration order of maps
	zz.MapOrderNondet(true)
	ctx2 := newZZContext(file, now)
	*ctx2.config = *ctx.config
	err2 := run(ctx2)
	zz.MapOrderNondet(false)
	zz.Assert(err2 == nil && ctx2.fileText == ctx.fileText, "repeat-yields-identical-bytes")
}
