package cli

import (
	gotime "time"

	"github.com/jotaen/klog/klog/app"
	"github.com/jotaen/klog/klog/parser"
	zz "github.com/jotaen/klog/klog/zzverif"
)

// ZZ_C06_Commands: every read-only command (with its warnings) on valid files whose
// records sit at the edges of the representable calendar and whose entries are
// shifted to the neighbouring days, evaluated at wall clocks near and far from the
// records.  Nothing may panic (an uncaught panic ends the path as `no-panic`).
func ZZ_C06_Commands() {
	dates := []string{"0000-01-01", "0000-01-02", "9999-12-30", "9999-12-31", "2020-02-29", "2019-12-31"}
	entries := []string{"1h", "<23:00 - 1:00", "0:30> - ?", "0:30> - 1:15>", "24:00-?", "<24:00 - 0:00>", "-5m #t", "12:00am> - 1:00am>", "<23:59 - ?"}
	d1 := zz.Choose(len(dates))
	file := dates[d1] + " (8h!)\n    " + entries[zz.Choose(len(entries))] + "\n"
	near := true // both records within a few days: --fill has few gaps to fill (filling 10000 years is only slow)
	if zz.Choose(2) == 1 {
		d2 := []int{1, 3, 4}[zz.Choose(3)]
		near = (d1 <= 1 && d2 == 1) || (d1 >= 2 && d1 <= 3 && d2 == 3) || (d1 >= 4 && d2 == 4)
		file += "\n" + dates[d2] + "\nSummary #s\n    " + []string{"2h #t=1", "0:30> - ?", "<23:00 - 1:00>"}[zz.Choose(3)] + "\n"
	}
	rs, _, errs := parser.NewSerialParser().Parse(file)
	zz.Assert(errs == nil && len(rs) >= 1, "template-is-valid")
	if errs != nil {
		return
	}
	// wall clocks of this era (a clock in year 0000 or 9999 is not file content)
	now := []gotime.Time{
		gotime.Date(2020, 6, 6, 12, 0, 0, 0, gotime.UTC),
		gotime.Date(2020, 2, 29, 0, 40, 0, 0, gotime.UTC),
		gotime.Date(2019, 12, 31, 23, 59, 0, 0, gotime.UTC),
	}[zz.Choose(3)]
	ctx := newZZContext(file, now)
	var err app.Error
	switch zz.Param("cmd") {
	case 0:
		c := &Total{}
		c.Diff = true
		c.Now = zz.Choose(2) == 1
		err = c.Run(ctx)
	case 1:
		c := &Today{}
		c.Diff = true
		c.Now = zz.Choose(2) == 1
		err = c.Run(ctx)
	case 2:
		c := &Report{}
		c.Diff = true
		c.Fill = near && zz.Choose(2) == 1
		c.Now = c.Fill
		c.AggregateBy = []string{"day", "week", "month", "quarter", "year"}[zz.Choose(5)]
		err = c.Run(ctx)
	case 3:
		c := &Tags{Values: true, Count: true}
		c.Now = zz.Choose(2) == 1
		err = c.Run(ctx)
	case 4:
		c := &Print{WithTotals: zz.Choose(2) == 1}
		if zz.Choose(2) == 1 {
			c.Sort = "desc"
		}
		err = c.Run(ctx)
	case 5:
		c := &Json{}
		c.Now = zz.Choose(2) == 1
		err = c.Run(ctx)
	}
	zz.Observe("failed", err != nil)
	if err != nil {
		_ = err.Error()
		_ = err.Details()
	}
}
