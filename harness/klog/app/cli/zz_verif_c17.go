package cli

import (
	gotime "time"

	"github.com/jotaen/klog/klog"
	"github.com/jotaen/klog/klog/app/cli/util"
	"github.com/jotaen/klog/klog/parser"
	"github.com/jotaen/klog/klog/service"
	zz "github.com/jotaen/klog/klog/zzverif"
)

// days on which the clock is placed: ordinary, month end, year end, leap day, day after leap day
var zzDays = [][3]int{{2021, 6, 15}, {2021, 4, 30}, {2021, 12, 31}, {2020, 2, 29}, {2020, 3, 1}}

func zzDateStr(y, m, d int) string {
	dt, _ := klog.NewDate(y, m, d)
	return dt.ToString()
}

func zzNeighbour(day [3]int, delta int) klog.Date {
	dt, _ := klog.NewDate(day[0], day[1], day[2])
	return dt.PlusDays(delta)
}

// zzRounded is the oracle: nearest multiple of v, ties up.
func zzRounded(mins, v int) int {
	if v == 0 {
		return mins
	}
	rem := mins % v
	return mins - rem + zz.IteInt(2*rem >= v, v, 0)
}

// zzClock builds the symbolic clock (every minute of the day) on day index `day`.
func zzClock() (gotime.Time, [3]int, int) {
	day := zzDays[zz.Param("day")]
	h := zz.IntRange("h", 0, 23)
	m := zz.IntRange("m", 0, 59)
	return gotime.Date(day[0], gotime.Month(day[1]), day[2], h, m, 0, 0, gotime.UTC), day, h*60 + m
}

func zzFindRecord(text string, date klog.Date) klog.Record {
	rs, _, errs := parser.NewSerialParser().Parse(text)
	zz.Assert(errs == nil, "file-still-valid")
	for _, r := range rs {
		if r.Date().IsEqualTo(date) {
			return r
		}
	}
	return nil
}

// ZZ_C17_Start: `klog start` without --time at every minute, for every rounding
// and date selection; the file holds records for yesterday, today and tomorrow
// (layout 0) or no record at all (layout 1).
func ZZ_C17_Start() {
	now, day, mins := zzClock()
	v := []int{0, 5, 10, 12, 15, 20, 30, 60}[zz.Param("round")]
	sel := zz.Param("sel") // 0 default, 1 --today, 2 --yesterday, 3 --tomorrow
	today := zzNeighbour(day, 0)
	file := ""
	if zz.Param("layout") == 0 {
		file = zzNeighbour(day, -1).ToString() + "\n    1h\n\n" + today.ToString() + "\n    2h\n\n" + zzNeighbour(day, 1).ToString() + "\n    3h\n"
	}
	ctx := newZZContext(file, now)
	cmd := &Start{}
	if v != 0 {
		r, _ := service.NewRounding(v)
		cmd.Round = r
	}
	delta := 0
	switch sel {
	case 1:
		cmd.Today = true
	case 2:
		cmd.Yesterday = true
		delta = -1
	case 3:
		cmd.Tomorrow = true
		delta = 1
	}
	target := zzNeighbour(day, delta)
	err := cmd.Run(ctx) // a panic here is a violation ("never crashes")
	rounded := zzRounded(mins, v)
	expected := rounded - delta*1440 // relative to the target record's date
	representable := zz.And(expected >= -1440, expected < 2880)
	zz.Observe("ok", err == nil)
	zz.Assert(zz.Iff(err == nil, representable), "start-fails-iff-unrepresentable")
	if err != nil {
		zz.Assert(ctx.writes == 0 && ctx.fileText == file, "failed-start-leaves-file-untouched")
		return
	}
	rec := zzFindRecord(ctx.fileText, target)
	zz.Assert(rec != nil, "target-record-exists")
	if rec == nil {
		return
	}
	or := rec.OpenRange()
	zz.Assert(or != nil, "open-range-started")
	if or == nil {
		return
	}
	zz.Observe("start", or.Start().ToString())
	zz.Assert(or.Start().MidnightOffset().InMinutes() == expected, "start-time-is-rounded-now-relative-to-record")
}

// ZZ_C17_Stop: `klog stop` without --time / --date: closes today's open range,
// falls back to yesterday's record only when there is no record for today.
func ZZ_C17_Stop() {
	now, day, mins := zzClock()
	v := []int{0, 5, 10, 12, 15, 20, 30, 60}[zz.Param("round")]
	today, yesterday := zzNeighbour(day, 0), zzNeighbour(day, -1)
	sh := zz.IntRange("sh", 0, 23)
	sm := zz.IntRange("sm", 0, 59)
	startT, _ := klog.NewTime(sh, sm)
	startOff := sh*60 + sm
	open := "    " + startT.ToString() + " - ?\n"
	layout := zz.Param("layout")
	file := ""
	switch layout {
	case 0: // open range today
		file = yesterday.ToString() + "\n    1h\n\n" + today.ToString() + "\n" + open
	case 1: // open range yesterday, no record today
		file = yesterday.ToString() + "\n" + open
	case 2: // open range yesterday, a record for today without open range
		file = yesterday.ToString() + "\n" + open + "\n" + today.ToString() + "\n    1h\n"
	case 3: // open ranges in both
		file = yesterday.ToString() + "\n" + open + "\n" + today.ToString() + "\n" + open
	case 4: // nothing to stop
		file = today.ToString() + "\n    1h\n"
	}
	ctx := newZZContext(file, now)
	cmd := &Stop{}
	if v != 0 {
		r, _ := service.NewRounding(v)
		cmd.Round = r
	}
	err := cmd.Run(ctx)
	rounded := zzRounded(mins, v)
	// which record is targeted?
	target := today
	expected := rounded
	hasOpen := layout == 0 || layout == 3
	if layout == 1 {
		target = yesterday
		expected = rounded + 1440
		hasOpen = true
	}
	okExpected := zz.And(hasOpen, zz.And(expected >= startOff, expected < 2880))
	zz.Observe("ok", err == nil)
	zz.Assert(zz.Iff(err == nil, okExpected), "stop-succeeds-iff-closeable")
	if err != nil {
		zz.Assert(ctx.writes == 0 && ctx.fileText == file, "failed-stop-leaves-file-untouched")
		return
	}
	rec := zzFindRecord(ctx.fileText, target)
	zz.Assert(rec != nil && rec.OpenRange() == nil, "open-range-closed")
	if rec == nil {
		return
	}
	es := rec.Entries()
	last := es[len(es)-1]
	zz.Assert(last.Duration().InMinutes() == expected-startOff, "stop-time-is-rounded-now-relative-to-record")
	if layout == 3 {
		y := zzFindRecord(ctx.fileText, yesterday)
		zz.Assert(y != nil && y.OpenRange() != nil, "yesterday-untouched-when-today-has-record")
	}
}

var _ = util.Reconcile
