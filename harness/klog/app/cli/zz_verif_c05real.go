package cli

import (
	"github.com/jotaen/klog/klog"
	"github.com/jotaen/klog/klog/app"
	tf "github.com/jotaen/klog/klog/app/cli/terminalformat"
	"github.com/jotaen/klog/klog/parser"
	"github.com/jotaen/klog/klog/parser/reconciling"
	zz "github.com/jotaen/klog/klog/zzverif"
)

const zzTarget = "/tmp/zzverif-fs/target.klg"

// ZZ_C05_RealContext: the REAL app.Context (ReconcileFile -> ReadFile / WriteToFile)
// on the virtual file system: after a successful command the bytes on disk are
// exactly the validated result and parse; after a failing command they are untouched.
// Results that are SHORTER than the original file are included (long placeholders,
// pause values crossing an hour).
func ZZ_C05_RealContext() {
	zz.FSReset()
	ctx := app.NewContext(app.NewFileOrPanic("/tmp/zzverif-fs/cfg"), app.Meta{}, tf.NewStyler(tf.COLOUR_THEME_NO_COLOUR), app.NewDefaultConfig(tf.COLOUR_THEME_NO_COLOUR))
	date, _ := klog.NewDate(2020, 1, 1)
	h := zz.IntRange("h", 0, 23)
	t, _ := klog.NewTime(h, 5)
	placeholder := []string{"?", "???", "??????????"}[zz.Choose(3)]
	sum := zz.String("s", 1)
	zz.Assume(zz.And(sum[0] > ' ', sum[0] < 0x7f))
	before := ""
	var err app.Error
	var result *reconciling.Result
	switch zz.Choose(4) {
	case 0: // stop on an open range with a long placeholder: the file may shrink
		before = "2020-01-01\n    8:00 - " + placeholder + " " + sum + "ork\n"
		zz.FSWrite(zzTarget, before)
		c := &Stop{}
		c.Date, c.Time, c.File = date, t, zzTarget
		c.NoWarn = true
		err = c.Run(ctx)
	case 1: // pause value crossing an hour: "-1h59m" -> "-2h" shrinks the line
		before = "2020-01-01\n    8:00 - ?\n    -1h59m " + sum + "\n"
		zz.FSWrite(zzTarget, before)
		result, err = ctx.ReconcileFile(zzTarget, []reconciling.Creator{reconciling.NewReconcilerAtRecord(date)},
			func(r *reconciling.Reconciler) error { return r.ExtendPause(klog.NewDuration(0, -1)) })
	case 2: // track (grows) and an invalid entry (fails)
		before = "2020-01-01\n    1h\n"
		zz.FSWrite(zzTarget, before)
		c := &Track{Entry: klog.EntrySummary{[]string{"2h " + sum, "no entry " + sum}[zz.Choose(2)]}}
		c.Date, c.File = date, zzTarget
		c.NoWarn = true
		err = c.Run(ctx)
	case 3: // a target file that does not parse
		before = "2020-01-01\n  8:00 - " + placeholder + "\n 1h " + sum + "\n"
		if zz.Choose(2) == 1 {
			before = "2020-01-01\n    1h\n\n2020-01-02\nfoo\n 1h " + sum + "\n" // the faulty record is not the targeted one
		}
		zz.FSWrite(zzTarget, before)
		switch zz.Choose(4) {
		case 0:
			c := &Stop{}
			c.Date, c.Time, c.File = date, t, zzTarget
			err = c.Run(ctx)
		case 1:
			c := &Track{Entry: klog.EntrySummary{"2h " + sum}}
			c.Date, c.File = date, zzTarget
			c.NoWarn = true
			err = c.Run(ctx)
		case 2:
			c := &Start{}
			c.Date, c.Time, c.File = date, t, zzTarget
			c.NoWarn = true
			err = c.Run(ctx)
		case 3:
			c := &Create{}
			c.Date, c.File = date, zzTarget
			c.NoWarn = true
			err = c.Run(ctx)
		}
		zz.Assert(err != nil, "command-on-invalid-file-fails")
	}
	after, ok := zz.FSRead(zzTarget)
	zz.Assert(ok, "target-file-still-exists")
	zz.Observe("ok", err == nil)
	if err != nil {
		zz.Assert(after == before, "failed-command-leaves-file-untouched")
		zz.Assert(err.Code() != 0, "failure-has-nonzero-exit-code")
		return
	}
	_, _, errs := parser.NewSerialParser().Parse(after)
	zz.Assert(errs == nil, "written-file-is-valid")
	if result != nil {
		zz.Assert(after == result.AllSerialised, "bytes-on-disk-are-the-validated-result")
	}
}
