package parser

import (
	"github.com/jotaen/klog/klog"
	zz "github.com/jotaen/klog/klog/zzverif"
)

// ---------------------------------------------------------------------------
// Document generator + reference line grammar (Specification.md §I, §II).
//
// A document is a sequence of L lines.  The KIND of every line is a path choice
// made by the generator (so all kind sequences are enumerated); the data inside
// the lines (digits, summary bytes) is symbolic.  Alongside the text the
// generator runs the reference automaton of the specification's line grammar and
// records what the text denotes, or the first line at which it stops conforming.
// ---------------------------------------------------------------------------

type zzEntry struct {
	kind    int // zzKindDuration / zzKindRange / zzKindOpen
	a, b    int // minutes / start,end offsets
	summary []string
	line    int // index of the entry's first line in the document
}

type zzRec struct {
	date      string
	should    int
	hasShould bool
	summary   []string
	entries   []zzEntry
	indent    string
	firstLine int
	lastLine  int
}

type zzDoc struct {
	lines     []string // without line endings
	eol       string
	finalEOL  bool
	text      string
	accept    bool
	faultLine int // first non-conforming line (0-based), -1 if conforming
	faultKind string
	records   []zzRec
}

var zzDates = []string{"2020-01-01", "2020/01/02", "2021-12-31", "1999-05-06", "2000-02-29", "2033/10/10", "2044-04-04"}
var zzIndents = []string{"    ", "  ", "   ", "\t"}

const (
	zzStStart = iota
	zzStHead
	zzStEntries
)

// zzSummaryByte: a symbolic printable ASCII byte that cannot start a blank or be mistaken for structure.
func zzSummaryByte(name string) string {
	s := zz.String(name, 1)
	zz.Assume(zz.And(s[0] > ' ', s[0] < 0x7f))
	return s
}

// zzGenDoc generates a document of exactly L lines.  If `faults` is false only
// conforming continuations are chosen.
func zzGenDoc(L int, faults bool) *zzDoc {
	d := &zzDoc{faultLine: -1, accept: true}
	// line ending / final newline: a job parameter (0: LF, 1: CRLF, 2: LF without final newline)
	fmtSel := zz.Param("fmt")
	d.eol = []string{"\n", "\r\n", "\n"}[fmtSel]
	d.finalEOL = fmtSel != 2
	rot := zz.Param("rot") // rotates the indentation style used by the k-th record
	// tab=1: durations may use a tab between value and summary (klog accepts it; the
	// specification asks for a space, so only the mutating-command harnesses enable it)
	tabSep := zz.ParamOr("tab", 0) == 1
	pendingCont := false // a fault that is only complete once the entry's summary lines are consumed
	state := zzStStart
	var cur *zzRec
	nextDate := 0
	openSeen := false
	closeRec := func(line int) {
		if cur != nil {
			cur.lastLine = line
			d.records = append(d.records, *cur)
			cur = nil
		}
	}
	fault := func(i int, kind string) {
		if d.faultLine < 0 {
			d.faultLine = i
			d.faultKind = kind
			d.accept = false
		}
	}
	for i := 0; i < L; i++ {
		if !d.accept {
			// after the first fault the rest is irrelevant: pad with blank lines - except
			// that a duplicate open range may still be followed by its summary lines
			if pendingCont && zz.Choose(2) == 1 {
				d.lines = append(d.lines, cur.indent+cur.indent+"more")
				continue
			}
			pendingCont = false
			d.lines = append(d.lines, "")
			continue
		}
		switch state {
		case zzStStart:
			opts := 3
			if faults {
				opts = 5
			}
			switch zz.Choose(opts) {
			case 0: // blank line
				d.lines = append(d.lines, []string{"", " \t"}[zz.Choose(2)])
			case 1, 2: // headline (with / without should-total)
				closeRec(i - 1)
				date := zzDates[nextDate%len(zzDates)]
				nextDate++
				cur = &zzRec{date: date, firstLine: i}
				line := date
				if hs := zz.Choose(3); hs >= 1 {
					dg := zzDigits("sh", 1)
					neg := hs == 2
					v := int(dg[0]-'0') * 60
					if neg {
						line += " (-" + dg + "h!)"
						v = -v
					} else {
						line += " (" + dg + "h!)"
					}
					cur.should, cur.hasShould = v, true
				}
				d.lines = append(d.lines, line)
				state = zzStHead
				openSeen = false
			case 3: // stray text where a record must start
				d.lines = append(d.lines, []string{"hello", "2020-13-01"}[zz.Choose(2)])
				fault(i, "stray-text")
			case 4: // indented line outside a record
				d.lines = append(d.lines, "    1h")
				fault(i, "indented-outside-record")
			}
		case zzStHead, zzStEntries:
			type opt int
			const (
				oBlank opt = iota
				oSummary
				oDur
				oRange
				oOpen
				oCont
				oSummaryBlankStart
				oContAsFirst
				oWrongIndent
				oNonIndentedAfterEntry
				oReversedRange
				oContBlankNBSP
				oBadEntry
			)
			var choices []opt
			if state == zzStHead {
				choices = []opt{oBlank, oSummary, oDur, oRange, oOpen}
				if faults {
					choices = append(choices, oSummaryBlankStart, oContAsFirst, oReversedRange, oBadEntry)
				}
			} else {
				choices = []opt{oBlank, oDur, oRange, oOpen, oCont}
				if faults {
					choices = append(choices, oWrongIndent, oNonIndentedAfterEntry, oReversedRange, oContBlankNBSP, oBadEntry)
				}
			}
			c := choices[zz.Choose(len(choices))]
			startEntry := func() {
				if state == zzStHead {
					cur.indent = zzIndents[(len(d.records)+rot)%len(zzIndents)]
					state = zzStEntries
				}
			}
			optSummary := func(with bool) []string {
				if with {
					return []string{zzSummaryByte("es") + "x #t"}
				}
				return []string{""}
			}
			entryLine := func(v string, s []string) string {
				if s[0] != "" {
					return cur.indent + v + " " + s[0]
				}
				return cur.indent + v
			}
			switch c {
			case oBlank:
				d.lines = append(d.lines, []string{"", "  \t"}[zz.Choose(2)])
				closeRec(i - 1)
				state = zzStStart
			case oSummary:
				s := zzSummaryByte("rs") + []string{"ummary 1h", "020-01-01 \t"}[zz.Choose(2)]
				cur.summary = append(cur.summary, s)
				d.lines = append(d.lines, s)
			case oDur:
				startEntry()
				dg := zzDigits("d", 2)
				nv := 3
				if tabSep {
					nv = 4
				}
				variant := zz.Choose(nv)
				sign := []string{"", "-", "+", "-"}[variant]
				v := int(dg[0]-'0')*10 + int(dg[1]-'0')
				if sign == "-" {
					v = -v
				}
				s := optSummary(variant == 1 || variant == 3)
				cur.entries = append(cur.entries, zzEntry{kind: zzKindDuration, a: v, summary: s, line: i})
				if variant == 3 {
					d.lines = append(d.lines, cur.indent+sign+dg+"m\t"+s[0])
				} else {
					d.lines = append(d.lines, entryLine(sign+dg+"m", s))
				}
			case oRange:
				startEntry()
				m := zzDigits("rm", 1)
				zz.Assume(m[0] <= '5')
				variant := zz.Choose(3)
				sep := []string{" - ", "-", " - "}[variant]
				s := optSummary(variant == 1)
				if variant == 2 { // 12-hour notation, shifted start
					cur.entries = append(cur.entries, zzEntry{kind: zzKindRange, a: -1440 + 23*60, b: 13*60 + int(m[0]-'0')*10, summary: s, line: i})
					d.lines = append(d.lines, entryLine("<11:00pm"+sep+"1:"+m+"0pm", s))
				} else {
					cur.entries = append(cur.entries, zzEntry{kind: zzKindRange, a: 8 * 60, b: 9*60 + int(m[0]-'0')*10, summary: s, line: i})
					d.lines = append(d.lines, entryLine("8:00"+sep+"9:"+m+"0", s))
				}
			case oOpen:
				startEntry()
				h := zzDigits("oh", 1)
				variant := zz.Choose(2)
				q := []string{"?", "???"}[variant]
				s := optSummary(variant == 1)
				d.lines = append(d.lines, entryLine("1"+h+":15 - "+q, s))
				if openSeen {
					fault(i, "second-open-range")
					pendingCont = true
				} else {
					openSeen = true
					cur.entries = append(cur.entries, zzEntry{kind: zzKindOpen, a: (10+int(h[0]-'0'))*60 + 15, summary: s, line: i})
				}
			case oCont:
				variant := zz.Choose(2)
				t := zzSummaryByte("cs") + []string{"ore", " 2h"}[variant]
				extra := []string{"", "  "}[variant] // additional blanks belong to the text
				e := &cur.entries[len(cur.entries)-1]
				e.summary = append(e.summary, extra+t)
				d.lines = append(d.lines, cur.indent+cur.indent+extra+t)
			case oSummaryBlankStart:
				d.lines = append(d.lines, []string{" text", " text", "　text"}[zz.Choose(3)])
				fault(i, "summary-starts-with-blank")
			case oContAsFirst:
				d.lines = append(d.lines, "        more")
				fault(i, "doubly-indented-first-line")
			case oWrongIndent:
				// a different style, or the record's style plus one extra blank
				var w string
				if zz.Choose(2) == 0 {
					w = cur.indent + " "
				} else if cur.indent == "\t" {
					w = "  "
				} else {
					w = "\t"
				}
				d.lines = append(d.lines, w+"1h")
				fault(i, "wrong-indentation")
			case oNonIndentedAfterEntry:
				d.lines = append(d.lines, []string{"text", "2022-02-02"}[zz.Choose(2)])
				fault(i, "non-indented-line-inside-entries")
			case oReversedRange:
				startEntry()
				d.lines = append(d.lines, cur.indent+[]string{"9:00-8:59", "8:00> - 9:00"}[zz.Choose(2)])
				fault(i, "reversed-range")
			case oContBlankNBSP:
				d.lines = append(d.lines, cur.indent+cur.indent+[]string{" ", " \t", " "}[zz.Choose(3)])
				fault(i, "blank-continuation-line")
			case oBadEntry:
				startEntry()
				d.lines = append(d.lines, cur.indent+[]string{"1h60m", "8:00-?>", "25:00-26:00", "8:00 9:00"}[zz.Choose(4)])
				fault(i, "malformed-entry")
			}
		}
	}
	closeRec(L - 1)
	for i, l := range d.lines {
		d.text += l
		if i < L-1 || d.finalEOL {
			d.text += d.eol
		}
	}
	return d
}

// zzCheckRecords asserts that rs are exactly the records the document denotes.
func zzCheckRecords(d *zzDoc, rs []klog.Record) {
	zz.Assert(len(rs) == len(d.records), "record-count")
	if len(rs) != len(d.records) {
		return
	}
	for i, want := range d.records {
		r := rs[i]
		zz.Assert(r.Date().ToString() == want.date, "record-date-in-file-order")
		zz.Assert(r.ShouldTotal().InMinutes() == want.should, "record-should-total")
		sum := r.Summary().Lines()
		zz.Assert(len(sum) == len(want.summary), "record-summary-line-count")
		if len(sum) == len(want.summary) {
			for j := range sum {
				zz.Assert(sum[j] == want.summary[j], "record-summary-text")
			}
		}
		es := r.Entries()
		zz.Assert(len(es) == len(want.entries), "entry-count")
		if len(es) != len(want.entries) {
			continue
		}
		for j, we := range want.entries {
			e := es[j]
			zzCheckEntry(e, []zzAlt{{true, we.kind, we.a, we.b}}, "entry-kind-and-value")
			l := e.Summary().Lines()
			zz.Assert(len(l) == len(we.summary), "entry-summary-line-count")
			if len(l) == len(we.summary) {
				for k := range l {
					zz.Assert(l[k] == we.summary[k], "entry-summary-text")
				}
			}
		}
	}
}

// ZZ_C01_Structure: every kind sequence of L lines (including rule-violating
// continuations): accepted iff conforming, with exactly the denoted records.
func ZZ_C01_Structure() {
	d := zzGenDoc(zz.Param("L"), zz.Param("faults") == 1)
	rs, bs, errs := NewSerialParser().Parse(d.text)
	zz.Observe("accepted", errs == nil)
	zz.Observe("records", len(rs))
	if d.accept {
		zz.Assert(errs == nil, "conforming-document-accepted")
		if errs == nil {
			zz.Assert(len(bs) == len(rs), "one-block-per-record")
			zzCheckRecords(d, rs)
		}
	} else {
		zz.Assert(errs != nil, "non-conforming-document-rejected")
		zz.Assert(rs == nil, "no-records-when-rejected")
	}
}

// Exported access for harnesses in other packages.
func ZZGenDoc(L int, faults bool) *zzDoc       { return zzGenDoc(L, faults) }
func (d *zzDoc) Text() string                  { return d.text }
func (d *zzDoc) Lines() []string               { return d.lines }
func (d *zzDoc) Accept() bool                  { return d.accept }
func (d *zzDoc) FaultLine() int                { return d.faultLine }
func (d *zzDoc) FaultKind() string             { return d.faultKind }
func (d *zzDoc) NumRecords() int               { return len(d.records) }
func (d *zzDoc) CheckRecords(rs []klog.Record) { zzCheckRecords(d, rs) }

// RefTotal is the total time the document denotes (sum of durations and range lengths).
func (d *zzDoc) RefTotal() (total int, should int) {
	for _, r := range d.records {
		should += r.should
		for _, e := range r.entries {
			switch e.kind {
			case zzKindDuration:
				total += e.a
			case zzKindRange:
				total += e.b - e.a
			}
		}
	}
	return
}

// ---- exported model of what a generated document denotes (for harnesses in other packages) ----

type ZZEntry struct {
	Kind    int // 1 duration, 2 range, 3 open range
	A, B    int
	Summary []string
	Line    int
}

type ZZRec struct {
	Date      string
	Should    int
	Summary   []string
	Entries   []ZZEntry
	Indent    string // indentation used by the record's entries ("" if it has none)
	FirstLine int    // line index of the headline
	LastLine  int    // line index of the record's last line
}

func (d *zzDoc) Model() []ZZRec {
	var out []ZZRec
	for _, r := range d.records {
		m := ZZRec{Date: r.date, Should: r.should, Summary: append([]string{}, r.summary...), Indent: r.indent, FirstLine: r.firstLine, LastLine: r.lastLine}
		for _, e := range r.entries {
			m.Entries = append(m.Entries, ZZEntry{Kind: e.kind, A: e.a, B: e.b, Summary: append([]string{}, e.summary...), Line: e.line})
		}
		out = append(out, m)
	}
	return out
}

func (d *zzDoc) EOL() string    { return d.eol }
func (d *zzDoc) FinalEOL() bool { return d.finalEOL }

// ZZCheckModel asserts that rs are exactly the records of the model.
func ZZCheckModel(rs []klog.Record, model []ZZRec) {
	d := &zzDoc{}
	for _, m := range model {
		r := zzRec{date: m.Date, should: m.Should, summary: m.Summary}
		for _, e := range m.Entries {
			r.entries = append(r.entries, zzEntry{kind: e.Kind, a: e.A, b: e.B, summary: e.Summary})
		}
		d.records = append(d.records, r)
	}
	zzCheckRecords(d, rs)
}
