package engine

import (
	"github.com/jotaen/klog/klog/parser/txt"
	zz "github.com/jotaen/klog/klog/zzverif"
)

// ZZ_C08_Lossless: for every byte string of length n, the blocks returned by the
// (generic) serial engine reproduce the text byte for byte, are numbered
// consecutively and each contain exactly one run of significant lines.
func ZZ_C08_Lossless() {
	n := zz.Param("n")
	text := zz.String("t", n)
	p := SerialParser[int]{ParseOne: func(b txt.Block) (int, []txt.Error) { return 0, nil }}
	var blocks []txt.Block
	panicked := zz.Panics(func() { _, blocks, _ = p.Parse(text) })
	zz.Assert(!panicked, "read-no-panic")
	if panicked {
		return
	}
	zz.Observe("nblocks", len(blocks))
	// reference: is the text nothing but blank lines?
	allBlank := true
	for i := 0; i < n; i++ {
		b := text[i]
		ok := zz.Or(zz.Or(b == ' ', b == '\t'), b == '\n')
		if i+1 < n {
			ok = zz.Or(ok, zz.And(b == '\r', text[i+1] == '\n'))
		}
		allBlank = zz.And(allBlank, ok)
	}
	zz.Assert(zz.Iff(len(blocks) == 0, allBlank), "no-blocks-iff-all-blank")
	if len(blocks) == 0 {
		return
	}
	rebuilt := ""
	lineNo := 0
	for _, b := range blocks {
		zz.Assert(b.OverallLineIndex(0) == lineNo, "consecutive-line-numbers")
		// one run of significant lines: blank* significant+ blank*
		phase := 0
		for _, l := range b.Lines() {
			blank := l.IsBlank()
			switch phase {
			case 0:
				if !blank {
					phase = 1
				}
			case 1:
				if blank {
					phase = 2
				}
			case 2:
				zz.Assert(blank, "single-run-of-significant-lines")
			}
			rebuilt += l.Original()
			zz.Assert(l.LineEnding == "" || l.LineEnding == "\n" || l.LineEnding == "\r\n", "line-ending-kind")
		}
		zz.Assert(phase >= 1, "block-has-significant-line")
		sig, head, tail := b.SignificantLines()
		zz.Assert(head+len(sig)+tail == len(b.Lines()), "significant-lines-partition")
		lineNo += len(b.Lines())
	}
	zz.Assert(rebuilt == text, "lines-reproduce-text")
}
