package engine

import (
	"github.com/jotaen/klog/klog/parser/txt"
	zz "github.com/jotaen/klog/klog/zzverif"
)

// zzStubParse is a deterministic ParseOne: its value is the block's text; it
// reports one error per significant line whose first byte is '!' (position =
// index of that line in the block), so that error placement is observable.
func zzStubParse(b txt.Block) (string, []txt.Error) {
	text := ""
	var errs []txt.Error
	for i, l := range b.Lines() {
		text += l.Original()
		if len(l.Text) > 0 && l.Text[0] == '!' {
			errs = append(errs, txt.NewError(b, i, 0, len([]rune(l.Text)), "E", "stub", "stub"))
		}
	}
	return text, errs
}

func zzSameBlocks(a, b []txt.Block) bool {
	if len(a) != len(b) {
		return false
	}
	ok := true
	for i := range a {
		la, lb := a[i].Lines(), b[i].Lines()
		if len(la) != len(lb) {
			return false
		}
		ok = zz.And(ok, a[i].OverallLineIndex(0) == b[i].OverallLineIndex(0))
		for j := range la {
			ok = zz.And(ok, zz.And(la[j].Text == lb[j].Text, la[j].LineEnding == lb[j].LineEnding))
		}
	}
	return ok
}

// ZZ_C07_ParEquiv: for every byte string of length n, every worker count w and
// every order in which the workers deliver their results, the parallel engine
// returns the same values, blocks, line numbering and errors as the serial one.
func ZZ_C07_ParEquiv() {
	n := zz.Param("n")
	w := zz.Param("w")
	text := zz.String("t", n)
	serial := SerialParser[string]{ParseOne: zzStubParse}
	sv, sb, se := serial.Parse(text)
	par := ParallelBatchParser[string]{SerialParser: serial, NumberOfWorkers: w}
	zzInstallSchedule(zz.DeliveryOrder()) // native replay: force the delivery order the engine explored
	pv, pb, pe := par.Parse(text)
	zz.Observe("serial-values", len(sv))
	zz.Observe("serial-errors", len(se))
	zz.Assert(len(pv) == len(sv), "same-number-of-values")
	zz.Assert(len(pe) == len(se), "same-number-of-errors")
	if len(pv) == len(sv) {
		same := true
		for i := range sv {
			same = zz.And(same, sv[i] == pv[i])
		}
		zz.Assert(same, "same-values-in-order")
	}
	zz.Assert(zz.Iff(pb == nil, sb == nil), "blocks-nil-alike")
	zz.Assert(zzSameBlocks(sb, pb), "same-blocks-and-line-numbering")
	if len(pe) == len(se) {
		for i := range se {
			zz.Assert(se[i].LineNumber() == pe[i].LineNumber(), "same-error-line-number")
			zz.Assert(se[i].LineText() == pe[i].LineText(), "same-error-line-text")
			zz.Assert(se[i].Position() == pe[i].Position() && se[i].Length() == pe[i].Length(), "same-error-position")
		}
	}
}

// ZZ_C07_Lines: texts built from L lines, each one of {"", "a", "aaa"} (alpha=0) or {"", "a", "!aa"} (alpha=1: with error lines) x {LF, CRLF}
// (the last line optionally without line ending), so that chunk boundaries fall at
// every position relative to blank lines and CR LF pairs in texts that are longer
// than the arbitrary-bytes bound of ZZ_C07_ParEquiv.
func ZZ_C07_Lines() {
	L := zz.Param("L")
	w := zz.Param("w")
	text := ""
	for i := 0; i < L; i++ {
		if zz.Param("alpha") == 1 {
			text += []string{"", "a", "!aa"}[zz.Choose(3)]
		} else {
			text += []string{"", "a", "aaa"}[zz.Choose(3)]
		}
		text += []string{"\n", "\r\n"}[zz.Choose(2)]
	}
	if zz.Param("open") == 1 {
		text += []string{"", "a", "\r"}[zz.Choose(3)]
	}
	serial := SerialParser[string]{ParseOne: zzStubParse}
	sv, sb, se := serial.Parse(text)
	par := ParallelBatchParser[string]{SerialParser: serial, NumberOfWorkers: w}
	zzInstallSchedule(zz.DeliveryOrder())
	pv, pb, pe := par.Parse(text)
	zz.Observe("serial-values", len(sv))
	zz.Observe("serial-errors", len(se))
	zz.Assert(len(pv) == len(sv), "same-number-of-values")
	zz.Assert(len(pe) == len(se), "same-number-of-errors")
	if len(pv) == len(sv) {
		same := true
		for i := range sv {
			same = zz.And(same, sv[i] == pv[i])
		}
		zz.Assert(same, "same-values-in-order")
	}
	zz.Assert(zz.Iff(pb == nil, sb == nil), "blocks-nil-alike")
	zz.Assert(zzSameBlocks(sb, pb), "same-blocks-and-line-numbering")
	if len(pe) == len(se) {
		for i := range se {
			zz.Assert(se[i].LineNumber() == pe[i].LineNumber(), "same-error-line-number")
			zz.Assert(se[i].LineText() == pe[i].LineText(), "same-error-line-text")
			zz.Assert(se[i].Position() == pe[i].Position() && se[i].Length() == pe[i].Length(), "same-error-position")
		}
	}
}
