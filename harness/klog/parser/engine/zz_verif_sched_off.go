//go:build !verif

package engine

func zzInstallSchedule(order []int) {}
