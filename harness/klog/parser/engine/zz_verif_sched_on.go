//go:build verif

package engine

import "time"

// zzInstallSchedule makes the workers of processAsync deliver in the given
// order (goroutine ids in spawn order, worker i has id i+1).
func zzInstallSchedule(order []int) {
	if len(order) == 0 {
		ZZSchedulePoint = nil
		return
	}
	gates := map[int]chan struct{}{}
	for _, id := range order {
		if _, ok := gates[id-1]; !ok {
			gates[id-1] = make(chan struct{})
		}
	}
	ZZSchedulePoint = func(idx int) {
		if g, ok := gates[idx]; ok {
			<-g
		}
	}
	go func() {
		done := map[int]bool{}
		for _, id := range order {
			if !done[id-1] {
				done[id-1] = true
				close(gates[id-1])
				time.Sleep(3 * time.Millisecond)
			}
		}
	}()
}
