package parser

import (
	"github.com/jotaen/klog/klog"
	zz "github.com/jotaen/klog/klog/zzverif"
)

// ---------------------------------------------------------------------------
// Reference recognisers written from Specification.md (no klog helpers).
// All of them work on strings of concrete length with symbolic bytes: optional
// parts are enumerated structurally, byte values are data.
// ---------------------------------------------------------------------------

func zzDigit(b byte) bool { return zz.And(b >= '0', b <= '9') }
func zzBlank(b byte) bool { return zz.Or(b == ' ', b == '\t') }

// zzRefDuration: [+-]? (D+ h)? (D+ m)? (one part at least; minutes < 60 with hours).
func zzRefDuration(s string) (ok bool, mins int) {
	n := len(s)
	ok, mins = false, 0
	for sg := 0; sg <= 1; sg++ {
		for hd := 0; hd <= n; hd++ {
			for md := 0; md <= n; md++ {
				l := sg
				if hd > 0 {
					l += hd + 1
				}
				if md > 0 {
					l += md + 1
				}
				if l != n || (hd == 0 && md == 0) {
					continue
				}
				c := true
				p := 0
				isNeg := false
				if sg == 1 {
					isNeg = s[0] == '-'
					c = zz.And(c, zz.Or(s[0] == '+', isNeg))
					p = 1
				}
				h := 0
				for i := 0; i < hd; i++ {
					c = zz.And(c, zzDigit(s[p]))
					h = h*10 + int(s[p]-'0')
					p++
				}
				if hd > 0 {
					c = zz.And(c, s[p] == 'h')
					p++
				}
				m := 0
				for i := 0; i < md; i++ {
					c = zz.And(c, zzDigit(s[p]))
					m = m*10 + int(s[p]-'0')
					p++
				}
				if md > 0 {
					c = zz.And(c, s[p] == 'm')
					p++
				}
				if hd > 0 {
					c = zz.And(c, m <= 59)
				}
				v := h*60 + m
				v = zz.IteInt(isNeg, -v, v)
				mins = zz.IteInt(c, v, mins)
				ok = zz.Or(ok, c)
			}
		}
	}
	return
}

// zzRefTime: ["<"] H{1,2} ":" MM ["am"|"pm"] [">"]; returns validity and minutes from midnight.
func zzRefTime(s string) (ok bool, offset int) {
	n := len(s)
	ok, offset = false, 0
	for lt := 0; lt <= 1; lt++ {
		for hd := 1; hd <= 2; hd++ {
			for ap := 0; ap <= 2; ap += 2 {
				for gt := 0; gt <= 1; gt++ {
					if lt+hd+1+2+ap+gt != n || (lt == 1 && gt == 1) {
						continue
					}
					p := 0
					c := true
					if lt == 1 {
						c = zz.And(c, s[p] == '<')
						p++
					}
					h := 0
					for i := 0; i < hd; i++ {
						c = zz.And(c, zzDigit(s[p]))
						h = h*10 + int(s[p]-'0')
						p++
					}
					c = zz.And(c, s[p] == ':')
					p++
					c = zz.And(c, zz.And(zzDigit(s[p]), zzDigit(s[p+1])))
					m := int(s[p]-'0')*10 + int(s[p+1]-'0')
					p += 2
					pm := false
					if ap == 2 {
						isAm := zz.And(s[p] == 'a', s[p+1] == 'm')
						isPm := zz.And(s[p] == 'p', s[p+1] == 'm')
						c = zz.And(c, zz.Or(isAm, isPm))
						pm = isPm
						p += 2
					}
					if gt == 1 {
						c = zz.And(c, s[p] == '>')
					}
					c = zz.And(c, m <= 59)
					shift := gt - lt
					h24 := h
					if ap == 2 {
						c = zz.And(c, zz.And(h >= 1, h <= 12))
						h24 = zz.IteInt(h == 12, 0, h)
						h24 = zz.IteInt(pm, h24+12, h24)
					} else {
						c = zz.And(c, zz.Or(h <= 23, zz.And(h == 24, zz.And(m == 0, gt == 0))))
					}
					offset = zz.IteInt(c, shift*1440+h24*60+m, offset)
					ok = zz.Or(ok, c)
				}
			}
		}
	}
	return
}

const (
	zzKindNone = iota
	zzKindDuration
	zzKindRange
	zzKindOpen
)

// zzRefValue recognises an entry VALUE occupying the whole of s.
// kind is concrete per structural alternative, so the result is a list of
// alternatives (condition, kind, a, b): duration minutes in a; range start/end
// offsets in a, b; open-range start in a.
type zzAlt struct {
	cond bool
	kind int
	a, b int
}

func zzRefValue(s string) []zzAlt {
	var alts []zzAlt
	n := len(s)
	if ok, mins := zzRefDuration(s); n > 0 {
		alts = append(alts, zzAlt{ok, zzKindDuration, mins, 0})
	}
	// T1 ' '* '-' ' '* ( T2 | '?'+ )
	for i := 3; i <= 9 && i < n; i++ {
		for a := 0; i+a < n; a++ {
			p := i + a
			if p >= n {
				break
			}
			for b := 0; p+1+b < n; b++ {
				rest := p + 1 + b
				j := n - rest
				if j < 1 {
					continue
				}
				c := s[p] == '-'
				for x := i; x < p; x++ {
					c = zz.And(c, s[x] == ' ')
				}
				for x := p + 1; x < rest; x++ {
					c = zz.And(c, s[x] == ' ')
				}
				ok1, off1 := zzRefTime(s[:i])
				c = zz.And(c, ok1)
				// open range: rest is all '?'
				q := true
				for x := rest; x < n; x++ {
					q = zz.And(q, s[x] == '?')
				}
				alts = append(alts, zzAlt{zz.And(c, q), zzKindOpen, off1, 0})
				if j >= 4 && j <= 9 {
					ok2, off2 := zzRefTime(s[rest:])
					alts = append(alts, zzAlt{zz.And(c, zz.And(ok2, off2 >= off1)), zzKindRange, off1, off2})
				}
			}
		}
	}
	return alts
}

func zzAny(alts []zzAlt) bool {
	r := false
	for _, a := range alts {
		r = zz.Or(r, a.cond)
	}
	return r
}

// zzCheckEntry asserts that entry e denotes one of the alternatives that holds.
func zzCheckEntry(e klog.Entry, alts []zzAlt, id string) {
	kind := klog.Unbox[int](&e,
		func(klog.Range) int { return zzKindRange },
		func(klog.Duration) int { return zzKindDuration },
		func(klog.OpenRange) int { return zzKindOpen })
	a, b := klog.Unbox[int](&e,
		func(r klog.Range) int { return r.Start().MidnightOffset().InMinutes() },
		func(d klog.Duration) int { return d.InMinutes() },
		func(o klog.OpenRange) int { return o.Start().MidnightOffset().InMinutes() }), 0
	if kind == zzKindRange {
		b = klog.Unbox[int](&e, func(r klog.Range) int { return r.End().MidnightOffset().InMinutes() },
			func(klog.Duration) int { return 0 }, func(klog.OpenRange) int { return 0 })
	}
	match := false
	for _, alt := range alts {
		if alt.kind != kind {
			continue
		}
		m := zz.And(alt.cond, a == alt.a)
		if kind == zzKindRange {
			m = zz.And(m, b == alt.b)
		}
		match = zz.Or(match, m)
	}
	zz.Assert(match, id)
}

func zzNoNewline(s string) {
	for i := 0; i < len(s); i++ {
		zz.Assume(zz.And(s[i] != '\n', s[i] != '\r'))
	}
}

func zzAllASCII(s string) bool {
	r := true
	for i := 0; i < len(s); i++ {
		r = zz.And(r, s[i] < 0x80)
	}
	return r
}

// ZZ_C01_Headline: "2020-01-01" followed by n arbitrary bytes.
//
//	must accept: nothing, or one or more spaces and "(" duration "!)"
//	must reject: any non-blank text that is not a (loosely spaced) should-total
//	don't care:  trailing blanks, tabs as separators, blanks inside the parentheses, non-ASCII bytes
func ZZ_C01_Headline() {
	n := zz.Param("n")
	tail := zz.String("tail", n)
	zzNoNewline(tail)
	ending := []string{"\n", "", "\r\n"}[zz.Param("ending")]
	rs, _, errs := NewSerialParser().Parse("2020-01-01" + tail + ending)
	accepted := errs == nil
	zz.Observe("accepted", accepted)
	zz.Assert(zz.Iff(accepted, len(rs) == 1), "one-record-iff-accepted")
	ascii := zzAllASCII(tail)
	// strict form
	strict := n == 0
	strictMins := 0
	for sp := 1; sp+4 <= n; sp++ { // sp spaces, "(", dur, "!)"
		k := n - sp - 3
		c := true
		for i := 0; i < sp; i++ {
			c = zz.And(c, tail[i] == ' ')
		}
		c = zz.And(c, zz.And(tail[sp] == '(', zz.And(tail[n-2] == '!', tail[n-1] == ')')))
		ok, mins := zzRefDuration(tail[sp+1 : sp+1+k])
		c = zz.And(c, ok)
		strictMins = zz.IteInt(c, mins, strictMins)
		strict = zz.Or(strict, c)
	}
	// loose form: blank+ "(" blank* dur blank* "!" blank* ")" blank*
	loose := false
	for a := 1; a < n; a++ {
		for b := 0; a+1+b < n; b++ {
			for k := 1; a+1+b+k < n; k++ {
				for c2 := 0; a+1+b+k+c2 < n; c2++ {
					for d := 0; a+1+b+k+c2+1+d < n; d++ {
						e := n - (a + 1 + b + k + c2 + 1 + d + 1)
						if e < 0 {
							continue
						}
						p := 0
						c := true
						blanks := func(cnt int) {
							for i := 0; i < cnt; i++ {
								c = zz.And(c, zzBlank(tail[p]))
								p++
							}
						}
						blanks(a)
						c = zz.And(c, tail[p] == '(')
						p++
						blanks(b)
						ok, _ := zzRefDuration(tail[p : p+k])
						c = zz.And(c, ok)
						p += k
						blanks(c2)
						c = zz.And(c, tail[p] == '!')
						p++
						blanks(d)
						c = zz.And(c, tail[p] == ')')
						p++
						blanks(e)
						loose = zz.Or(loose, c)
					}
				}
			}
		}
	}
	allBlank := true
	for i := 0; i < n; i++ {
		allBlank = zz.And(allBlank, zzBlank(tail[i]))
	}
	zz.Assert(zz.Implies(strict, accepted), "conforming-headline-accepted")
	zz.Assert(zz.Implies(zz.And(ascii, zz.And(zz.Not(allBlank), zz.Not(loose))), zz.Not(accepted)), "extra-text-in-headline-rejected")
	if accepted && len(rs) == 1 {
		r := rs[0]
		zz.Assert(r.Date().Year() == 2020 && r.Date().Month() == 1 && r.Date().Day() == 1, "headline-date")
		zz.Assert(len(r.Entries()) == 0 && len(r.Summary()) == 0, "headline-only-record")
		zz.Assert(zz.Implies(strict, r.ShouldTotal().InMinutes() == strictMins), "should-total-value")
		zz.Assert(zz.Implies(allBlank, r.ShouldTotal().InMinutes() == 0), "no-should-total")
	}
}

// ZZ_C01_Entry: headline, then one line: an indentation sequence and n arbitrary
// bytes (first byte not blank).
//
//	must accept: VALUE | VALUE " " summary      (value part ASCII)
//	must reject: everything that is not VALUE, or VALUE followed by blank and text
//	don't care:  a tab as separator between value and summary
func ZZ_C01_Entry() {
	n := zz.Param("n")
	indent := []string{"    ", "  ", "   ", "\t"}[zz.Param("indent")]
	tail := zz.String("tail", n)
	zzNoNewline(tail)
	zz.Assume(zz.Not(zzBlank(tail[0])))
	ending := []string{"\n", "", "\r\n"}[zz.Param("ending")]
	rs, _, errs := NewSerialParser().Parse("2020-01-01\n" + indent + tail + ending)
	accepted := errs == nil
	zz.Observe("accepted", accepted)
	strict, loose := false, false
	type cand struct {
		cond bool
		alts []zzAlt
		k    int
	}
	var cands []cand
	for k := 1; k <= n; k++ {
		alts := zzRefValue(tail[:k])
		v := zzAny(alts)
		if k == n {
			strict = zz.Or(strict, v)
			loose = zz.Or(loose, v)
			cands = append(cands, cand{v, alts, k})
		} else {
			strict = zz.Or(strict, zz.And(v, tail[k] == ' '))
			loose = zz.Or(loose, zz.And(v, zzBlank(tail[k])))
			cands = append(cands, cand{zz.And(v, zzBlank(tail[k])), alts, k})
		}
	}
	zz.Assert(zz.Implies(strict, accepted), "conforming-entry-accepted")
	zz.Assert(zz.Implies(zz.Not(loose), zz.Not(accepted)), "malformed-entry-rejected")
	if accepted {
		zz.Assert(len(rs) == 1 && len(rs[0].Entries()) == 1, "one-entry")
		if len(rs) == 1 && len(rs[0].Entries()) == 1 {
			e := rs[0].Entries()[0]
			// the entry denotes the value of (one of) the matching candidates, with the rest as summary
			var all []zzAlt
			for _, c := range cands {
				for _, a := range c.alts {
					all = append(all, zzAlt{zz.And(c.cond, a.cond), a.kind, a.a, a.b})
				}
			}
			zzCheckEntry(e, all, "entry-denotation")
			sum := e.Summary().Lines()
			text := ""
			if len(sum) > 0 {
				text = sum[0]
			}
			okSum := false
			for _, c := range cands {
				if c.k == n {
					okSum = zz.Or(okSum, zz.And(c.cond, text == ""))
				} else {
					okSum = zz.Or(okSum, zz.And(c.cond, text == tail[c.k+1:]))
				}
			}
			// (invalid UTF-8 is outside the specification: the comparison is made for ASCII text)
			zz.Assert(zz.Implies(zzAllASCII(tail), zz.And(len(sum) <= 1, okSum)), "entry-summary-is-rest-of-line")
		}
	}
}

// zzDigits returns k symbolic decimal digits.
func zzDigits(name string, k int) string {
	s := zz.String(name, k)
	for i := 0; i < k; i++ {
		zz.Assume(zzDigit(s[i]))
	}
	return s
}

// zzTimeTemplate returns a time-shaped string: optional "<", 1-2 digit hour,
// ":", 2 digit minute, optional am/pm, optional ">" - shape by path choice,
// digits symbolic.  `shapes` limits the variety (quick tier).
func zzTimeTemplate(name string, full bool) string {
	lt, gt, ap := 0, 0, 0
	hd := 1 + zz.Choose(2)
	if full {
		lt = zz.Choose(2)
		gt = zz.Choose(2)
		ap = zz.Choose(3)
	} else {
		switch zz.Choose(4) {
		case 1:
			lt = 1
		case 2:
			gt = 1
		case 3:
			ap = 1 + zz.Choose(2)
		}
	}
	s := ""
	if lt == 1 {
		s += "<"
	}
	s += zzDigits(name+"h", hd) + ":" + zzDigits(name+"m", 2)
	s += []string{"", "am", "pm"}[ap]
	if gt == 1 {
		s += ">"
	}
	return s
}

// ZZ_C01_RangeTemplate: headline + one entry line built from two time templates
// (or a time and a placeholder), every dash spacing, optional summary.
func ZZ_C01_RangeTemplate() {
	full := zz.Param("full") == 1
	indent := "    "
	nsep, nsum := 3, 2
	if full {
		indent = []string{"    ", "\t"}[zz.Choose(2)]
		nsep, nsum = 5, 3
	}
	t1 := zzTimeTemplate("a", full)
	sep := []string{"-", " - ", "  -  ", " -", "- "}[zz.Choose(nsep)]
	open := zz.Param("open") == 1
	var v string
	if open {
		v = t1 + sep + []string{"?", "??", "????", "?>", "<?"}[zz.Choose(5)]
	} else {
		v = t1 + sep + zzTimeTemplate("b", full)
	}
	sum := []string{"", " #tag 1h", " x"}[zz.Choose(nsum)]
	rs, _, errs := NewSerialParser().Parse("2020-01-01\n" + indent + v + sum + "\n")
	accepted := errs == nil
	zz.Observe("accepted", accepted)
	alts := zzRefValue(v)
	zz.Assert(zz.Iff(accepted, zzAny(alts)), "range-accepted-iff-conforming")
	if accepted {
		zz.Assert(len(rs) == 1 && len(rs[0].Entries()) == 1, "one-entry")
		if len(rs) == 1 && len(rs[0].Entries()) == 1 {
			zzCheckEntry(rs[0].Entries()[0], alts, "range-denotation")
			l := rs[0].Entries()[0].Summary().Lines()
			want := ""
			if len(sum) > 0 {
				want = sum[1:]
			}
			zz.Assert(len(l) == 1 && l[0] == want, "range-summary")
		}
	}
}

// ---------------------------------------------------------------------------
// Summary lines and the specification's "blank character" (tab or Unicode Zs).
// ---------------------------------------------------------------------------

// zzZsAt: the bytes s[i:i+k] encode one blank character (k = 1, 2, 3).
func zzZsAt(s string, i, k int) bool {
	if i+k > len(s) {
		return false
	}
	switch k {
	case 1:
		return zz.Or(s[i] == ' ', s[i] == '\t')
	case 2:
		return zz.And(s[i] == 0xC2, s[i+1] == 0xA0) // U+00A0
	}
	a, b, c := s[i], s[i+1], s[i+2]
	r := zz.And(a == 0xE1, zz.And(b == 0x9A, c == 0x80))                                               // U+1680
	r = zz.Or(r, zz.And(a == 0xE2, zz.And(b == 0x80, zz.Or(zz.And(c >= 0x80, c <= 0x8A), c == 0xAF)))) // U+2000-200A, U+202F
	r = zz.Or(r, zz.And(a == 0xE2, zz.And(b == 0x81, c == 0x9F)))                                      // U+205F
	r = zz.Or(r, zz.And(a == 0xE3, zz.And(b == 0x80, c == 0x80)))                                      // U+3000
	return r
}

func zzAllBlankRunes(s string) bool {
	n := len(s)
	ab := make([]bool, n+1)
	ab[n] = true
	for i := n - 1; i >= 0; i-- {
		v := false
		for k := 1; k <= 3; k++ {
			if i+k <= n {
				v = zz.Or(v, zz.And(zzZsAt(s, i, k), ab[i+k]))
			}
		}
		ab[i] = v
	}
	return ab[0]
}

func zzStartsBlank(s string) bool {
	return zz.Or(zzZsAt(s, 0, 1), zz.Or(zzZsAt(s, 0, 2), zzZsAt(s, 0, 3)))
}

// ZZ_C01_SummaryLine: n arbitrary bytes as (kind 0) a record summary line or
// (kind 1) the continuation line of an entry summary that is followed by another
// entry.  For valid UTF-8:
//
//	kind 0: rejected iff the line starts with a blank character (tab or Zs)
//	kind 1: rejected iff the line consists of blank characters only (either it breaks
//	        the entry-summary rule or it is a blank line inside the record)
func ZZ_C01_SummaryLine() {
	n := zz.Param("n")
	kind := zz.Param("kind")
	tail := zz.String("tail", n)
	zzNoNewline(tail)
	var text string
	if kind == 0 {
		zz.Assume(zz.Not(zzZsAt(tail, 0, 1))) // a leading space or tab makes it an entry line
		text = "2020-01-01\n" + tail + "\n    1h\n"
	} else {
		text = "2020-01-01\n    1h\n        " + tail + "\n    2h\n"
	}
	rs, _, errs := NewSerialParser().Parse(text)
	accepted := errs == nil
	zz.Observe("accepted", accepted)
	valid := zzValidUTF8(tail)
	if !valid {
		return
	}
	if kind == 0 {
		zz.Assert(zz.Iff(zzStartsBlank(tail), zz.Not(accepted)), "summary-line-starting-blank-rejected-others-accepted")
		if accepted {
			zz.Assert(len(rs) == 1 && len(rs[0].Summary().Lines()) == 1 && len(rs[0].Entries()) == 1, "summary-line-structure")
			if len(rs) == 1 && len(rs[0].Summary().Lines()) == 1 {
				zz.Assert(rs[0].Summary().Lines()[0] == tail, "summary-line-text")
			}
		}
		return
	}
	zz.Assert(zz.Iff(zzAllBlankRunes(tail), zz.Not(accepted)), "blank-only-continuation-rejected-others-accepted")
	if accepted {
		zz.Assert(len(rs) == 1 && len(rs[0].Entries()) == 2, "continuation-structure")
		if len(rs) == 1 && len(rs[0].Entries()) == 2 {
			ls := rs[0].Entries()[0].Summary().Lines()
			zz.Assert(len(ls) == 2 && ls[0] == "" && ls[1] == tail, "continuation-line-text")
		}
	}
}

// zzValidUTF8 is a reference UTF-8 validity test on symbolic bytes (RFC 3629 table).
func zzValidUTF8(s string) bool {
	n := len(s)
	ok := make([]bool, n+1)
	ok[n] = true
	cont := func(b byte) bool { return zz.And(b >= 0x80, b <= 0xBF) }
	for i := n - 1; i >= 0; i-- {
		v := zz.And(s[i] < 0x80, ok[i+1])
		if i+2 <= n {
			v = zz.Or(v, zz.And(zz.And(s[i] >= 0xC2, s[i] <= 0xDF), zz.And(cont(s[i+1]), ok[i+2])))
		}
		if i+3 <= n {
			a, b, c := s[i], s[i+1], s[i+2]
			lead := zz.Or(zz.And(a == 0xE0, zz.And(b >= 0xA0, b <= 0xBF)),
				zz.Or(zz.And(zz.Or(zz.And(a >= 0xE1, a <= 0xEC), zz.And(a >= 0xEE, a <= 0xEF)), cont(b)),
					zz.And(a == 0xED, zz.And(b >= 0x80, b <= 0x9F))))
			v = zz.Or(v, zz.And(lead, zz.And(cont(c), ok[i+3])))
		}
		if i+4 <= n {
			a, b, c, d := s[i], s[i+1], s[i+2], s[i+3]
			lead := zz.Or(zz.And(a == 0xF0, zz.And(b >= 0x90, b <= 0xBF)),
				zz.Or(zz.And(zz.And(a >= 0xF1, a <= 0xF3), cont(b)),
					zz.And(a == 0xF4, zz.And(b >= 0x80, b <= 0x8F))))
			v = zz.Or(v, zz.And(lead, zz.And(cont(c), zz.And(cont(d), ok[i+4]))))
		}
		ok[i] = v
	}
	return ok[0]
}
