package klog

import (
	zz "github.com/jotaen/klog/klog/zzverif"
)

// Reference tag scanner written from Specification.md ("Tag"):
//   tag   := '#' name [ '=' value ]
//   name  := one or more of: letter, digit, '_', '-'      (compared lower-cased)
//   value := '"' any-but-'"' '"'  |  "'" any-but-"'" "'"  |  zero or more name characters
//   an empty or unterminated value counts as absent
// The scan is leftmost, non-overlapping, on one line of ASCII text.

type zzTag struct {
	name  string
	value string
}

func zzNameChar(b byte) bool {
	return (b >= 'a' && b <= 'z') || (b >= 'A' && b <= 'Z') || (b >= '0' && b <= '9') || b == '_' || b == '-'
}

func zzLower(s string) string {
	out := ""
	for i := 0; i < len(s); i++ {
		b := s[i]
		if b >= 'A' && b <= 'Z' {
			b += 32
		}
		out += string([]byte{b})
	}
	return out
}

func zzScanTags(s string) []zzTag {
	var tags []zzTag
	i := 0
	n := len(s)
	for i < n {
		if s[i] != '#' || i+1 >= n || !zzNameChar(s[i+1]) {
			i++
			continue
		}
		j := i + 1
		for j < n && zzNameChar(s[j]) {
			j++
		}
		name := zzLower(s[i+1 : j])
		value := ""
		if j < n && s[j] == '=' {
			k := j + 1
			if k < n && (s[k] == '"' || s[k] == '\'') {
				q := s[k]
				e := k + 1
				for e < n && s[e] != q {
					e++
				}
				if e < n { // terminated
					value = s[k+1 : e]
					j = e + 1
				} else {
					j = k // "=" consumed, value absent
				}
			} else {
				e := k
				for e < n && zzNameChar(s[e]) {
					e++
				}
				value = s[k:e]
				j = e
			}
		}
		tags = append(tags, zzTag{name, value})
		i = j
	}
	return tags
}

// ZZ_C14_TagScan: for every ASCII string of length n (a one-line summary), the tags
// klog recognises are exactly the reference scanner's (name, value) list, in order.
func ZZ_C14_TagScan() {
	n := zz.Param("n")
	s := zz.String("s", n)
	for i := 0; i < n; i++ {
		zz.Assume(zz.And(s[i] < 0x80, zz.And(s[i] != '\n', s[i] != '\r')))
	}
	// lines=2: the same bytes as a two-line summary, split at every position (a value
	// must be closed on its own line; tags never span lines)
	sum := RecordSummary{s}
	want := zzScanTags(s)
	if zz.ParamOr("lines", 1) == 2 {
		k := zz.Choose(n + 1)
		sum = RecordSummary{s[:k], s[k:]}
		want = append(zzScanTags(s[:k]), zzScanTags(s[k:])...)
	}
	got := sum.Tags().original
	zz.Observe("ntags", len(got))
	zz.Assert(len(got) == len(want), "same-number-of-tags")
	if len(got) != len(want) {
		return
	}
	for i := range want {
		zz.Assert(got[i].Name() == want[i].name, "tag-name-lowercased")
		zz.Assert(got[i].Value() == want[i].value, "tag-value-verbatim")
	}
	// matching: a tag with value also matches its bare name
	ts := sum.Tags()
	for _, w := range want {
		zz.Assert(ts.Contains(NewTagOrPanic(w.name, "")), "bare-name-matches")
		if w.value != "" {
			zz.Assert(ts.Contains(NewTagOrPanic(w.name, w.value)), "name-value-matches")
		}
	}
}
