package klog

import (
	zz "github.com/jotaen/klog/klog/zzverif"
)

// ---------------------------------------------------------------------------
// Reference recogniser for time literals, written from Specification.md:
//   time = ["<"] hour ":" minute ["am"|"pm"] [">"]      ("<" and ">" exclusive)
//   hour: 1-2 digits, minute: 2 digits (00-59)
//   24h: hour 0..24, 24 only as 24:00 and never with ">"
//   12h: hour 1..12
// It returns (ok, offset-in-minutes-from-midnight, is12h).
// ---------------------------------------------------------------------------

func isDigit(b byte) bool { return zz.And(b >= '0', b <= '9') }

// refTime works on a concrete-length string with symbolic bytes.  Structure
// (where the optional parts are) is case-split by length; byte values are data.
func refTime(s string) (ok bool, offset int, is12h bool) {
	n := len(s)
	// enumerate the shapes: lt∈{0,1}, hd∈{1,2}, ap∈{0,2}, gt∈{0,1}
	ok = false
	offset = 0
	is12h = false
	for lt := 0; lt <= 1; lt++ {
		for hd := 1; hd <= 2; hd++ {
			for ap := 0; ap <= 2; ap += 2 {
				for gt := 0; gt <= 1; gt++ {
					if lt+hd+1+2+ap+gt != n {
						continue
					}
					if lt == 1 && gt == 1 {
						continue
					}
					p := 0
					c := true
					if lt == 1 {
						c = zz.And(c, s[p] == '<')
						p++
					}
					var h int
					if hd == 1 {
						c = zz.And(c, isDigit(s[p]))
						h = int(s[p] - '0')
						p++
					} else {
						c = zz.And(c, zz.And(isDigit(s[p]), isDigit(s[p+1])))
						h = int(s[p]-'0')*10 + int(s[p+1]-'0')
						p += 2
					}
					c = zz.And(c, s[p] == ':')
					p++
					c = zz.And(c, zz.And(isDigit(s[p]), isDigit(s[p+1])))
					m := int(s[p]-'0')*10 + int(s[p+1]-'0')
					p += 2
					pm := false
					if ap == 2 {
						isAm := zz.And(s[p] == 'a', s[p+1] == 'm')
						isPm := zz.And(s[p] == 'p', s[p+1] == 'm')
						c = zz.And(c, zz.Or(isAm, isPm))
						pm = isPm
						p += 2
					}
					if gt == 1 {
						c = zz.And(c, s[p] == '>')
						p++
					}
					c = zz.And(c, m <= 59)
					shift := 0
					if lt == 1 {
						shift = -1
					}
					if gt == 1 {
						shift = 1
					}
					var h24 int
					if ap == 2 {
						c = zz.And(c, zz.And(h >= 1, h <= 12))
						// 12am = 0, 12pm = 12, Npm = N+12
						h24 = zz.IteInt(h == 12, 0, h)
						h24 = zz.IteInt(pm, h24+12, h24)
					} else {
						// 24:00 allowed unless shifted to tomorrow
						is24 := h == 24
						c = zz.And(c, zz.Or(h <= 23, zz.And(is24, zz.And(m == 0, gt == 0))))
						h24 = h
					}
					off := shift*1440 + h24*60 + m
					// shapes are mutually exclusive for a given n only partly (hd/ap
					// combinations with equal total length): accumulate
					offset = zz.IteInt(c, off, offset)
					is12h = zz.Or(zz.And(c, ap == 2), zz.And(zz.Not(c), is12h))
					ok = zz.Or(ok, c)
				}
			}
		}
	}
	return
}

// ZZ_C16_TimeAccept: for every string of length n, NewTimeFromString accepts
// exactly the specification's time literals and denotes the specified value.
func ZZ_C16_TimeAccept() {
	n := zz.Param("n")
	s := zz.String("s", n)
	t, err := NewTimeFromString(s)
	rok, roff, r12 := refTime(s)
	zz.Observe("accepted", err == nil)
	zz.Assert(zz.Iff(err == nil, rok), "time-accept-iff-spec")
	if err == nil {
		zz.Observe("offset", t.MidnightOffset().InMinutes())
		zz.Assert(t.MidnightOffset().InMinutes() == roff, "time-offset")
		zz.Assert(zz.Iff(!t.Format().Use24HourClock, r12), "time-clock-flag")
		zz.Assert(zz.And(t.Hour() >= 0, t.Hour() <= 23), "time-hour-range")
		zz.Assert(zz.And(t.Minute() >= 0, t.Minute() <= 59), "time-minute-range")
	}
}
