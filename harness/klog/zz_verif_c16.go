package klog

import (
	zz "github.com/jotaen/klog/klog/zzverif"
)

// ---------------------------------------------------------------------------
// Reference recogniser for time literals, written from Specification.md:
//   time = ["<"] hour ":" minute ["am"|"pm"] [">"]      ("<" and ">" exclusive)
//   hour: 1-2 digits, minute: 2 digits (00-59)
//   24h: hour 0..24, 24 only as 24:00 and never with ">"
//   12h: hour 1..12
// It returns (ok, offset-in-minutes-from-midnight, is12h).
// ---------------------------------------------------------------------------

func isDigit(b byte) bool { return zz.And(b >= '0', b <= '9') }

// refTime works on a concrete-length string with symbolic bytes.  Structure
// (where the optional parts are) is case-split by length; byte values are data.
func refTime(s string) (ok bool, offset int, is12h bool) {
	n := len(s)
	// enumerate the shapes: lt∈{0,1}, hd∈{1,2}, ap∈{0,2}, gt∈{0,1}
	ok = false
	offset = 0
	is12h = false
	for lt := 0; lt <= 1; lt++ {
		for hd := 1; hd <= 2; hd++ {
			for ap := 0; ap <= 2; ap += 2 {
				for gt := 0; gt <= 1; gt++ {
					if lt+hd+1+2+ap+gt != n {
						continue
					}
					if lt == 1 && gt == 1 {
						continue
					}
					p := 0
					c := true
					if lt == 1 {
						c = zz.And(c, s[p] == '<')
						p++
					}
					var h int
					if hd == 1 {
						c = zz.And(c, isDigit(s[p]))
						h = int(s[p] - '0')
						p++
					} else {
						c = zz.And(c, zz.And(isDigit(s[p]), isDigit(s[p+1])))
						h = int(s[p]-'0')*10 + int(s[p+1]-'0')
						p += 2
					}
					c = zz.And(c, s[p] == ':')
					p++
					c = zz.And(c, zz.And(isDigit(s[p]), isDigit(s[p+1])))
					m := int(s[p]-'0')*10 + int(s[p+1]-'0')
					p += 2
					pm := false
					if ap == 2 {
						isAm := zz.And(s[p] == 'a', s[p+1] == 'm')
						isPm := zz.And(s[p] == 'p', s[p+1] == 'm')
						c = zz.And(c, zz.Or(isAm, isPm))
						pm = isPm
						p += 2
					}
					if gt == 1 {
						c = zz.And(c, s[p] == '>')
						p++
					}
					c = zz.And(c, m <= 59)
					shift := 0
					if lt == 1 {
						shift = -1
					}
					if gt == 1 {
						shift = 1
					}
					var h24 int
					if ap == 2 {
						c = zz.And(c, zz.And(h >= 1, h <= 12))
						// 12am = 0, 12pm = 12, Npm = N+12
						h24 = zz.IteInt(h == 12, 0, h)
						h24 = zz.IteInt(pm, h24+12, h24)
					} else {
						// 24:00 allowed unless shifted to tomorrow
						is24 := h == 24
						c = zz.And(c, zz.Or(h <= 23, zz.And(is24, zz.And(m == 0, gt == 0))))
						h24 = h
					}
					off := shift*1440 + h24*60 + m
					// shapes are mutually exclusive for a given n only partly (hd/ap
					// combinations with equal total length): accumulate
					offset = zz.IteInt(c, off, offset)
					is12h = zz.Or(zz.And(c, ap == 2), zz.And(zz.Not(c), is12h))
					ok = zz.Or(ok, c)
				}
			}
		}
	}
	return
}

// ZZ_C16_TimeAccept: for every string of length n, NewTimeFromString accepts
// exactly the specification's time literals and denotes the specified value.
func ZZ_C16_TimeAccept() {
	n := zz.Param("n")
	s := zz.String("s", n)
	t, err := NewTimeFromString(s)
	rok, roff, r12 := refTime(s)
	zz.Observe("accepted", err == nil)
	zz.Assert(zz.Iff(err == nil, rok), "time-accept-iff-spec")
	if err == nil {
		zz.Observe("offset", t.MidnightOffset().InMinutes())
		zz.Assert(t.MidnightOffset().InMinutes() == roff, "time-offset")
		zz.Assert(zz.Iff(!t.Format().Use24HourClock, r12), "time-clock-flag")
		zz.Assert(zz.And(t.Hour() >= 0, t.Hour() <= 23), "time-hour-range")
		zz.Assert(zz.And(t.Minute() >= 0, t.Minute() <= 59), "time-minute-range")
	}
}

// symTime builds an arbitrary valid Time value (hour, minute, shift, clock flag symbolic).
func symTime(prefix string) (Time, int, bool) {
	h := zz.IntRange(prefix+"h", 0, 23)
	m := zz.IntRange(prefix+"m", 0, 59)
	sh := zz.IntRange(prefix+"shift", -1, 1)
	is24 := zz.Bool(prefix + "is24")
	t, err := newTime(h, m, sh, TimeFormat{Use24HourClock: is24})
	zz.Assert(err == nil, "newTime-accepts-valid")
	return t, sh*1440 + h*60 + m, is24
}

// ZZ_C16_TimeRoundtrip: ToString / NewTimeFromString is the identity on values and notation.
func ZZ_C16_TimeRoundtrip() {
	t, off, is24 := symTime("t")
	zz.Assert(t.MidnightOffset().InMinutes() == off, "time-offset-denotation")
	s := t.ToString()
	zz.Observe("text", s)
	t2, err := NewTimeFromString(s)
	zz.Assert(err == nil, "time-roundtrip-accepts")
	if err != nil {
		return
	}
	zz.Assert(t2.MidnightOffset().InMinutes() == off, "time-roundtrip-value")
	zz.Assert(zz.Iff(t2.Format().Use24HourClock, is24), "time-roundtrip-notation")
	zz.Assert(t2.IsEqualTo(t), "time-roundtrip-equal")
	zz.Assert(t2.ToString() == s, "time-print-fixed-point")
	// the other notation denotes the same value
	t3, err3 := NewTimeFromString(t.ToStringWithFormat(TimeFormat{Use24HourClock: !is24}))
	zz.Assert(err3 == nil, "time-other-notation-accepts")
	if err3 == nil {
		zz.Assert(t3.MidnightOffset().InMinutes() == off, "time-other-notation-value")
	}
	// writing a value out in another notation does not change the value itself
	zz.Assert(t.ToString() == s && zz.Iff(t.Format().Use24HourClock, is24), "writing-out-leaves-the-value-unchanged")
}

// ZZ_C16_TimePlus: Plus yields the time d minutes later iff that lies within
// [start of previous day, end of next day), otherwise an error.
func ZZ_C16_TimePlus() {
	t, off, is24 := symTime("t")
	d := zz.IntRange("d", -3000, 3000)
	r, err := t.Plus(NewDuration(0, d))
	sum := off + d
	representable := zz.And(sum >= -1440, sum < 2880)
	zz.Observe("ok", err == nil)
	zz.Assert(zz.Iff(err == nil, representable), "plus-error-iff-unrepresentable")
	if err == nil {
		zz.Assert(r.MidnightOffset().InMinutes() == sum, "plus-value")
		zz.Assert(zz.Iff(r.Format().Use24HourClock, is24), "plus-keeps-notation")
		zz.Assert(zz.And(r.Minute() >= 0, r.Minute() <= 59), "plus-minute-range")
		zz.Assert(zz.And(r.Hour() >= 0, r.Hour() <= 23), "plus-hour-range")
	}
}

// ZZ_C16_Range: a range is valid iff end >= start, and lasts end-start minutes.
func ZZ_C16_Range() {
	a, offA, _ := symTime("a")
	b, offB, _ := symTime("b")
	r, err := NewRange(a, b)
	zz.Assert(zz.Iff(err == nil, offB >= offA), "range-valid-iff-ordered")
	zz.Assert(zz.Iff(b.IsAfterOrEqual(a), offB >= offA), "time-order")
	zz.Assert(zz.Iff(a.IsEqualTo(b), offA == offB), "time-equality")
	if err == nil {
		zz.Assert(r.Duration().InMinutes() == offB-offA, "range-duration")
	}
}

// The literal equivalences the specification names explicitly.
func ZZ_C16_Equivalences() {
	eq := func(x, y string, id string) {
		a, e1 := NewTimeFromString(x)
		b, e2 := NewTimeFromString(y)
		zz.Assert(zz.And(e1 == nil, e2 == nil), id+"-accepted")
		if e1 == nil && e2 == nil {
			zz.Assert(a.IsEqualTo(b), id)
			zz.Assert(a.ToString() == b.ToString(), id+"-canonical")
		}
	}
	eq("24:00", "0:00>", "eq-24:00")
	eq("<24:00", "0:00", "eq-<24:00")
	// 12:00am is midnight, 12:00pm is noon (same values as the 24-hour literals)
	a, e1 := NewTimeFromString("12:00am")
	b, e2 := NewTimeFromString("0:00")
	c, e3 := NewTimeFromString("12:00pm")
	d, e4 := NewTimeFromString("12:00")
	zz.Assert(e1 == nil && e2 == nil && e3 == nil && e4 == nil, "eq-12h-accepted")
	zz.Assert(a.IsEqualTo(b), "eq-12:00am")
	zz.Assert(c.IsEqualTo(d), "eq-12:00pm")
	d90, e5 := NewDurationFromString("90m")
	d130, e6 := NewDurationFromString("1h30m")
	zz.Assert(e5 == nil && e6 == nil, "eq-90m-accepted")
	zz.Assert(d90.InMinutes() == d130.InMinutes(), "eq-90m")
	zz.Assert(d90.ToString() == d130.ToString(), "eq-90m-canonical")
}

// ---------------------------------------------------------------------------
// Durations
// ---------------------------------------------------------------------------

// refDuration: [+-]? (D+ h)? (D+ m)? with at least one part; minutes < 60 when hours present.
func refDuration(s string) (ok bool, mins int, plus bool, neg bool) {
	n := len(s)
	ok = false
	mins = 0
	plus = false
	neg = false
	for sg := 0; sg <= 1; sg++ {
		for hd := 0; hd <= n; hd++ {
			for md := 0; md <= n; md++ {
				l := sg
				if hd > 0 {
					l += hd + 1
				}
				if md > 0 {
					l += md + 1
				}
				if l != n || (hd == 0 && md == 0) {
					continue
				}
				c := true
				p := 0
				isPlus, isNeg := false, false
				if sg == 1 {
					isPlus = s[0] == '+'
					isNeg = s[0] == '-'
					c = zz.And(c, zz.Or(isPlus, isNeg))
					p = 1
				}
				h := 0
				for i := 0; i < hd; i++ {
					c = zz.And(c, isDigit(s[p]))
					h = h*10 + int(s[p]-'0')
					p++
				}
				if hd > 0 {
					c = zz.And(c, s[p] == 'h')
					p++
				}
				m := 0
				for i := 0; i < md; i++ {
					c = zz.And(c, isDigit(s[p]))
					m = m*10 + int(s[p]-'0')
					p++
				}
				if md > 0 {
					c = zz.And(c, s[p] == 'm')
					p++
				}
				if hd > 0 {
					c = zz.And(c, m <= 59)
				}
				v := h*60 + m
				v = zz.IteInt(isNeg, -v, v)
				mins = zz.IteInt(c, v, mins)
				plus = zz.Or(zz.And(c, isPlus), zz.And(zz.Not(c), plus))
				neg = zz.Or(zz.And(c, isNeg), zz.And(zz.Not(c), neg))
				ok = zz.Or(ok, c)
			}
		}
	}
	return
}

// ZZ_C16_DurationAccept: every string of length n is accepted iff it is a
// duration literal of the specification, with the denoted signed value.
func ZZ_C16_DurationAccept() {
	n := zz.Param("n")
	s := zz.String("s", n)
	var d Duration
	var err error
	panicked := zz.Panics(func() { d, err = NewDurationFromString(s) })
	zz.Assert(!panicked, "duration-parse-no-panic")
	if panicked {
		return
	}
	rok, rmins, rplus, rneg := refDuration(s)
	zz.Observe("accepted", err == nil)
	zz.Assert(zz.Iff(err == nil, rok), "duration-accept-iff-spec")
	if err == nil {
		zz.Observe("mins", d.InMinutes())
		zz.Assert(d.InMinutes() == rmins, "duration-value")
		// notation: explicit plus is remembered; the sign of a zero value is remembered
		out := d.ToString()
		d2, err2 := NewDurationFromString(out)
		zz.Assert(err2 == nil, "duration-print-reparses")
		if err2 == nil {
			zz.Assert(d2.InMinutes() == rmins, "duration-roundtrip-value")
			zz.Assert(d2.ToString() == out, "duration-print-fixed-point")
		}
		zz.Assert(zz.Implies(zz.And(rplus, rmins > 0), out[0] == '+'), "duration-keeps-plus")
		zz.Assert(zz.Implies(rneg, zz.Or(rmins == 0, out[0] == '-')), "duration-neg-sign")
	}
}

// ZZ_C16_DurationRoundtrip: for every value and notation, parse(print(d)) == d, canonical text.
func ZZ_C16_DurationRoundtrip() {
	mins := zz.IntRange("mins", -100000, 100000)
	forcePlus := zz.Bool("forcePlus")
	zs := zz.IntRange("zeroSign", -1, 1)
	d := NewDurationWithFormat(0, mins, DurationFormat{ForcePlus: forcePlus, ZeroSign: zs})
	s := d.ToString()
	zz.Observe("text", s)
	d2, err := NewDurationFromString(s)
	zz.Assert(err == nil, "duration-roundtrip-accepts")
	if err != nil {
		return
	}
	zz.Assert(d2.InMinutes() == mins, "duration-roundtrip-value")
	zz.Assert(d2.ToString() == s, "duration-print-fixed-point")
}

// ZZ_C16_DurationArith: Plus/Minus are exact; hours/minutes split denotes h*60+m.
func ZZ_C16_DurationArith() {
	mins := zz.IntRange("mins", -1000000000, 1000000000)
	other := zz.IntRange("other", -1000000000, 1000000000)
	d := NewDuration(0, mins)
	zz.Assert(d.Plus(NewDuration(0, other)).InMinutes() == mins+other, "duration-plus")
	zz.Assert(d.Minus(NewDuration(0, other)).InMinutes() == mins-other, "duration-minus")
	hh := zz.IntRange("hh", -100000, 100000)
	mm := zz.IntRange("mm", -59, 59)
	zz.Assert(NewDuration(hh, mm).InMinutes() == hh*60+mm, "duration-hm-value")
}

// ZZ_C16_DurationCanonical: `90m`-style and `1h30m`-style spellings print identically.
func ZZ_C16_DurationCanonical() {
	hh := zz.IntRange("hh", 0, 200)
	mm := zz.IntRange("mm", 0, 59)
	a := NewDuration(hh, mm)
	b := NewDuration(0, hh*60+mm)
	zz.Assert(a.InMinutes() == b.InMinutes(), "duration-hm-equivalence")
	zz.Assert(a.ToString() == b.ToString(), "duration-hm-canonical")
}

// ---------------------------------------------------------------------------
// Dates
// ---------------------------------------------------------------------------

// refDaysIn: days of month m (1..12) in year y, proleptic Gregorian.
func refDaysIn(y, m int) int {
	leap := zz.And(y%4 == 0, zz.Or(y%100 != 0, y%400 == 0))
	d := 31
	d = zz.IteInt(zz.Or(zz.Or(m == 4, m == 6), zz.Or(m == 9, m == 11)), 30, d)
	d = zz.IteInt(m == 2, zz.IteInt(leap, 29, 28), d)
	return d
}

// refDate: YYYY-MM-DD or YYYY/MM/DD with equal separators, Gregorian-valid.
func refDate(s string) (ok bool, y, m, d int, dashes bool) {
	if len(s) != 10 {
		return false, 0, 0, 0, false
	}
	c := true
	for _, i := range []int{0, 1, 2, 3, 5, 6, 8, 9} {
		c = zz.And(c, isDigit(s[i]))
	}
	dg := func(i int) int { return int(s[i] - '0') }
	y = dg(0)*1000 + dg(1)*100 + dg(2)*10 + dg(3)
	m = dg(5)*10 + dg(6)
	d = dg(8)*10 + dg(9)
	bothDash := zz.And(s[4] == '-', s[7] == '-')
	bothSlash := zz.And(s[4] == '/', s[7] == '/')
	c = zz.And(c, zz.Or(bothDash, bothSlash))
	c = zz.And(c, zz.And(m >= 1, m <= 12))
	c = zz.And(c, zz.And(d >= 1, d <= refDaysIn(y, m)))
	return c, y, m, d, bothDash
}

// ZZ_C16_DateAccept: every string of length n (years restricted to one century
// window when n == 10) is accepted iff it is a date literal denoting a
// Gregorian date; fields and separator notation as denoted.
func ZZ_C16_DateAccept() {
	n := zz.Param("n")
	s := zz.String("s", n)
	if n == 10 {
		c := zz.Param("century")
		zz.Assume(s[0] == byte('0'+c/10))
		zz.Assume(s[1] == byte('0'+c%10))
	}
	dt, err := NewDateFromString(s)
	rok, ry, rm, rd, rdash := refDate(s)
	zz.Observe("accepted", err == nil)
	zz.Assert(zz.Iff(err == nil, rok), "date-accept-iff-spec")
	if err == nil {
		zz.Assert(dt.Year() == ry, "date-year")
		zz.Assert(dt.Month() == rm, "date-month")
		zz.Assert(dt.Day() == rd, "date-day")
		zz.Assert(zz.Iff(dt.Format().UseDashes, rdash), "date-separator-notation")
		out := dt.ToString()
		zz.Observe("text", out)
		zz.Assert(out == s, "date-print-identity")
	}
}

// ZZ_C16_DateRoundtrip: NewDate accepts exactly Gregorian dates of years 0..9999
// (window-restricted), and print/parse is the identity in both notations.
func ZZ_C16_DateRoundtrip() {
	c := zz.Param("century")
	y := zz.IntRange("y", c*100, c*100+99)
	m := zz.IntRange("m", 0, 13)
	d := zz.IntRange("d", 0, 32)
	dashes := zz.Bool("dashes")
	dt, err := NewDate(y, m, d)
	valid := zz.And(zz.And(m >= 1, m <= 12), zz.And(d >= 1, d <= refDaysIn(y, m)))
	zz.Assert(zz.Iff(err == nil, valid), "newdate-accept-iff-gregorian")
	if err != nil {
		return
	}
	s := dt.ToStringWithFormat(DateFormat{UseDashes: dashes})
	zz.Observe("text", s)
	dt2, err2 := NewDateFromString(s)
	zz.Assert(err2 == nil, "date-roundtrip-accepts")
	if err2 != nil {
		return
	}
	zz.Assert(zz.And(dt2.Year() == y, zz.And(dt2.Month() == m, dt2.Day() == d)), "date-roundtrip-value")
	zz.Assert(zz.Iff(dt2.Format().UseDashes, dashes), "date-roundtrip-notation")
	zz.Assert(dt2.IsEqualTo(dt), "date-roundtrip-equal")
	// writing a value out in another notation does not change the value itself
	zz.Assert(dt.Format().UseDashes, "writing-out-leaves-the-value-unchanged")
}

// ZZNewTime exposes newTime to harnesses in other packages.
func ZZNewTime(h, m, shift int, is24 bool) (Time, error) {
	return newTime(h, m, shift, TimeFormat{Use24HourClock: is24})
}

// ZZSymTime returns an arbitrary valid time and its offset from midnight in minutes.
func ZZSymTime(prefix string) (Time, int) {
	t, off, _ := symTime(prefix)
	return t, off
}

// ZZRawDate builds a date value from arbitrary fields WITHOUT validation (for
// properties of functions that only read the fields, e.g. bucket hashes).
func ZZRawDate(y, m, d int) Date {
	return &date{year: y, month: m, day: d, format: DefaultDateFormat()}
}

// ZZRawDateFmt: the same with the notation the date was written in (`-` or `/`).
func ZZRawDateFmt(y, m, d int, dashes bool) Date {
	return &date{year: y, month: m, day: d, format: DateFormat{UseDashes: dashes}}
}
