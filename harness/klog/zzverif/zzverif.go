// Package zzverif is the harness API of the /verif machinery.  It is never
// part of the repository: it is injected as a build overlay.  Under the
// symbolic executor (symgo) every function here is intercepted; the bodies
// below are the NATIVE implementation used to replay solver models against
// the real build.
package zzverif

import (
	"encoding/json"
	"fmt"
	"os"
)

type rec struct {
	Name string          `json:"name"`
	Kind string          `json:"kind"`
	Val  json.RawMessage `json:"val"`
}

type replayFile struct {
	Harness string           `json:"harness"`
	Params  map[string]int64 `json:"params"`
	Values  []rec            `json:"values"`
}

var (
	file     replayFile
	next     int
	scheds   []int
	Failures []string
	Observed []string
)

// Load reads a replay file (native only).
func Load(path string) error {
	b, err := os.ReadFile(path)
	if err != nil {
		return err
	}
	file = replayFile{}
	next = 0
	scheds = nil
	Failures = nil
	Observed = nil
	if err := json.Unmarshal(b, &file); err != nil {
		return err
	}
	// scheduling choices of the engine are not consumed by nondet calls
	var vals []rec
	for _, v := range file.Values {
		if v.Kind == "sched" {
			var x int
			json.Unmarshal(v.Val, &x)
			scheds = append(scheds, x)
		} else {
			vals = append(vals, v)
		}
	}
	file.Values = vals
	return nil
}

// DeliveryOrder returns the goroutine ids (spawn order, 1-based) in the order in
// which the engine let them deliver on channels (native replay only).
func DeliveryOrder() []int { return scheds }

func HarnessName() string { return file.Harness }

func pop(kind string) rec {
	if next >= len(file.Values) {
		panic(divergence(fmt.Sprintf("replay diverged: nondet call #%d (%s) beyond recorded values", next, kind)))
	}
	r := file.Values[next]
	next++
	if r.Kind != kind {
		panic(divergence(fmt.Sprintf("replay diverged: nondet call #%d is %s, recorded %s", next-1, kind, r.Kind)))
	}
	return r
}

type divergence string

func Byte(name string) byte {
	var v int
	json.Unmarshal(pop("byte").Val, &v)
	return byte(v)
}

func Int(name string) int {
	var v int64
	json.Unmarshal(pop("int").Val, &v)
	return int(v)
}

func IntRange(name string, lo, hi int) int {
	var v int64
	json.Unmarshal(pop("int").Val, &v)
	return int(v)
}

func Bool(name string) bool {
	var v bool
	json.Unmarshal(pop("bool").Val, &v)
	return v
}

func String(name string, n int) string {
	var v []int
	json.Unmarshal(pop("string").Val, &v)
	b := make([]byte, len(v))
	for i := range v {
		b[i] = byte(v[i])
	}
	return string(b)
}

func Choose(n int) int {
	var v int
	json.Unmarshal(pop("choice").Val, &v)
	return v
}

func Param(name string) int {
	v, ok := file.Params[name]
	if !ok {
		panic("missing parameter " + name)
	}
	return int(v)
}

type stop struct{ reason string }

func Assume(c bool) {
	if !c {
		panic(stop{"assume"})
	}
}

func Assert(c bool, id string) {
	if !c {
		Failures = append(Failures, id)
		panic(stop{"assert-failed"})
	}
}

func Stop() { panic(stop{"stop"}) }

// Observe records a value (ints, bools, strings) for witness validation.
func Observe(name string, v any) {
	var s string
	switch x := v.(type) {
	case string:
		s = fmt.Sprintf("%q", x)
	case nil:
		s = "nil"
	default:
		s = fmt.Sprint(x)
	}
	Observed = append(Observed, name+"="+s)
}

func And(a, b bool) bool     { return a && b }
func Or(a, b bool) bool      { return a || b }
func Not(a bool) bool        { return !a }
func Implies(a, b bool) bool { return !a || b }
func Iff(a, b bool) bool     { return a == b }
func IteInt(c bool, a, b int) int {
	if c {
		return a
	}
	return b
}
func MapOrderNondet(on bool) {}
func Symbolic() bool         { return false }
func Concretize(x int) int   { return x }

var lastPanic string

// Panics runs f and reports whether it panicked.
func Panics(f func()) (panicked bool) {
	defer func() {
		if r := recover(); r != nil {
			if _, ok := r.(stop); ok {
				panic(r)
			}
			if _, ok := r.(divergence); ok {
				panic(r)
			}
			lastPanic = fmt.Sprint(r)
			panicked = true
		}
	}()
	f()
	return false
}

func LastPanic() string { return lastPanic }

// Run executes harness h natively and returns the outcome:
// "ok", "end:<reason>", "panic:<msg>", "diverged:<msg>".
func Run(h func()) (outcome string) {
	defer func() {
		if r := recover(); r != nil {
			switch x := r.(type) {
			case stop:
				outcome = "end:" + x.reason
			case divergence:
				outcome = "diverged:" + string(x)
			default:
				outcome = fmt.Sprintf("panic:%v", r)
			}
		}
	}()
	h()
	return "ok"
}

// Encoded returns the value most recently handed to encoding/json's Encoder
// (engine only; nil natively, where the real encoder runs).
func Encoded() any { return nil }

// NoSummaries runs f with the engine's callee summaries disabled (the real SSA
// bodies are executed); natively it just runs f.
func NoSummaries(f func()) { f() }

// ParamOr returns a job parameter or def when the job does not set it.
func ParamOr(name string, def int) int {
	if v, ok := file.Params[name]; ok {
		return int(v)
	}
	return def
}

// ---- file system access for harnesses that drive the real app.Context ----
// Under the engine these act on its virtual file system; natively on real files
// (harnesses use paths below /tmp/zzverif-fs).

func FSWrite(path string, content string) {
	os.MkdirAll(dirOf(path), 0o755)
	if err := os.WriteFile(path, []byte(content), 0o644); err != nil {
		panic(err)
	}
}

func FSRead(path string) (string, bool) {
	b, err := os.ReadFile(path)
	if err != nil {
		return "", false
	}
	return string(b), true
}

func FSReset() { os.RemoveAll("/tmp/zzverif-fs") }

func dirOf(p string) string {
	for i := len(p) - 1; i >= 0; i-- {
		if p[i] == '/' {
			return p[:i]
		}
	}
	return "."
}
