package service

import (
	"github.com/jotaen/klog/klog"
	zz "github.com/jotaen/klog/klog/zzverif"
)

// zzRawDate: a date value with symbolic fields (no calendar arithmetic involved:
// Filter and Sort only compare year/month/day).
func zzRawDate(prefix string) (klog.Date, int) {
	y := zz.IntRange(prefix+"y", 2019, 2021)
	m := zz.IntRange(prefix+"m", 1, 12)
	d := zz.IntRange(prefix+"d", 1, 28)
	// either notation: a record keeps the separator its date was written with
	return klog.ZZRawDateFmt(y, m, d, zz.Choose(2) == 0), y*10000 + m*100 + d
}

var zzTagX = klog.NewTagOrPanic("x", "")
var zzTagY = klog.NewTagOrPanic("y", "")
var zzTagXV = klog.NewTagOrPanic("x", "v")

type zzRecSpec struct {
	rec     klog.Record
	key     int   // yyyymmdd
	recTags int   // bit 0: #x in record summary, bit 1: #y
	entTags []int // per entry: bit 0 #x, bit 1 #y, bit 2 #x=v
	kinds   []int // per entry: 0 positive duration, 1 negative duration, 2 range, 3 open range, 4 zero duration
	mins    []int
}

func zzSummaryFor(bits int) string {
	s := "text"
	if bits&1 != 0 {
		s += " #x"
	}
	if bits&2 != 0 {
		s += " #y"
	}
	if bits&4 != 0 {
		s += " #x=v"
	}
	return s
}

// zzBuild builds n records with e entries each; tags and entry kinds are path choices,
// dates and durations symbolic.
func zzBuild(n, e int) []zzRecSpec {
	var out []zzRecSpec
	mode := zz.Param("mode") // 0: date clauses (symbolic dates, plain entries); 1: tag / type clauses (fixed dates); 2: everything
	for i := 0; i < n; i++ {
		var dt klog.Date
		var key int
		if mode == 1 {
			dt, key = klog.ZZRawDate(2020, 1, 1+i), 20200101+i
		} else {
			dt, key = zzRawDate("r")
		}
		spec := zzRecSpec{key: key}
		rec := klog.NewRecord(dt)
		if mode != 0 {
			spec.recTags = zz.Choose(3) // none, #x, #y
		}
		rs, _ := klog.NewRecordSummary(zzSummaryFor(spec.recTags))
		rec.SetSummary(rs)
		for j := 0; j < e; j++ {
			bits, kind := 0, 0
			if mode != 0 {
				bits = []int{0, 1, 2, 4}[zz.Choose(4)]
				kind = zz.Choose(5)
			}
			es, _ := klog.NewEntrySummary(zzSummaryFor(bits))
			mins := 0
			if kind == 3 && rec.OpenRange() != nil {
				kind = 4 // only one open range per record
			}
			switch kind {
			case 0:
				mins = zz.IntRange("dur", 1, 600)
				rec.AddDuration(klog.NewDuration(0, mins), es)
			case 1:
				mins = -zz.IntRange("dur", 1, 600)
				rec.AddDuration(klog.NewDuration(0, mins), es)
			case 2:
				a, _ := klog.NewTime(8, 0)
				b, _ := klog.NewTime(9, 30)
				r, _ := klog.NewRange(a, b)
				rec.AddRange(r, es)
				mins = 90
			case 3:
				a, _ := klog.NewTime(10, 0)
				_ = rec.Start(klog.NewOpenRange(a), es)
			case 4:
				rec.AddDuration(klog.NewDuration(0, 0), es)
			}
			spec.entTags = append(spec.entTags, bits)
			spec.kinds = append(spec.kinds, kind)
			spec.mins = append(spec.mins, mins)
		}
		spec.rec = rec
		out = append(out, spec)
	}
	return out
}

func zzHasTag(recBits, entBits int, want int) bool {
	// want: 1 = #x, 2 = #y, 4 = #x=v ; a tag with value also matches the bare name
	all := recBits | entBits
	switch want {
	case 1:
		return all&1 != 0 || all&4 != 0
	case 2:
		return all&2 != 0
	case 4:
		return all&4 != 0
	}
	return false
}

func zzTypeMatch(t EntryType, kind int) bool {
	switch t {
	case ENTRY_TYPE_DURATION:
		return kind == 0 || kind == 1 || kind == 4
	case ENTRY_TYPE_POSITIVE_DURATION:
		return kind == 0 || kind == 4
	case ENTRY_TYPE_NEGATIVE_DURATION:
		return kind == 1
	case ENTRY_TYPE_RANGE:
		return kind == 2
	case ENTRY_TYPE_OPEN_RANGE:
		return kind == 3
	}
	return true
}

// ZZ_C13_Filter: date, tag and entry-type clauses select exactly the matching
// records / entries, unchanged and in input order; the combination equals the
// intersection of the individual results.
func ZZ_C13_Filter() {
	specs := zzBuild(zz.Param("n"), zz.Param("e"))
	var rs []klog.Record
	for _, s := range specs {
		rs = append(rs, s.rec)
	}
	qry := FilterQry{}
	mode := zz.Param("mode")
	// date clause
	lo, hi := 0, 99999999
	dateSel := 0
	if mode != 1 {
		dateSel = zz.Choose(4)
	}
	switch dateSel {
	case 1:
		d, k := zzRawDate("at")
		qry.AtDate = d
		lo, hi = k, k
	case 2:
		d, k := zzRawDate("since")
		qry.AfterOrEqual = d
		lo = k
	case 3:
		d1, k1 := zzRawDate("since")
		d2, k2 := zzRawDate("until")
		qry.AfterOrEqual, qry.BeforeOrEqual = d1, d2
		lo, hi = k1, k2
	}
	wantTag := 0
	if mode != 0 {
		wantTag = []int{0, 1, 2, 4}[zz.Choose(4)]
	}
	switch wantTag {
	case 1:
		qry.Tags = []klog.Tag{zzTagX}
	case 2:
		qry.Tags = []klog.Tag{zzTagY}
	case 4:
		qry.Tags = []klog.Tag{zzTagXV}
	}
	if mode != 0 {
		qry.EntryType = []EntryType{"", ENTRY_TYPE_DURATION, ENTRY_TYPE_POSITIVE_DURATION, ENTRY_TYPE_NEGATIVE_DURATION, ENTRY_TYPE_RANGE, ENTRY_TYPE_OPEN_RANGE}[zz.Choose(6)]
	}
	out := Filter(rs, qry)
	// reference selection
	oi := 0
	for _, s := range specs {
		inDate := zz.And(s.key >= lo, s.key <= hi)
		// entries that survive the tag and type clauses
		var keep []int
		recTagMatch := wantTag != 0 && zzHasTag(s.recTags, 0, wantTag)
		for j := range s.kinds {
			tagOK := wantTag == 0 || recTagMatch || zzHasTag(s.recTags, s.entTags[j], wantTag)
			if tagOK && zzTypeMatch(qry.EntryType, s.kinds[j]) {
				keep = append(keep, j)
			}
		}
		selected := inDate
		if (wantTag != 0 || qry.EntryType != "") && len(keep) == 0 {
			// a record-level tag match keeps the record even if it has no entries
			if !(wantTag != 0 && recTagMatch && qry.EntryType == "") {
				selected = false
			}
		}
		if !zz.Symbolic() || true {
			if selected {
				zz.Assert(oi < len(out), "matching-record-is-returned")
				if oi >= len(out) {
					return
				}
				r := out[oi]
				oi++
				zz.Assert(r.Date().IsEqualTo(s.rec.Date()), "records-in-input-order")
				es := r.Entries()
				if wantTag == 0 && qry.EntryType == "" {
					zz.Assert(len(es) == len(s.kinds), "entries-unchanged")
				} else if wantTag != 0 && recTagMatch && qry.EntryType == "" {
					zz.Assert(len(es) == len(s.kinds), "record-level-tag-keeps-all-entries")
				} else {
					zz.Assert(len(es) == len(keep), "exactly-the-matching-entries")
					if len(es) == len(keep) {
						for x, j := range keep {
							zz.Assert(es[x].Duration().InMinutes() == zz.IteInt(s.kinds[j] == 3, 0, s.mins[j]), "entries-unaltered-in-order")
						}
					}
				}
			}
		}
	}
	zz.Assert(oi == len(out), "nothing-but-matching-records")
}

// ZZ_C13_Sort: --sort returns a permutation of the records ordered by date.
func ZZ_C13_Sort() {
	n := zz.Param("n")
	var rs []klog.Record
	var keys []int
	for i := 0; i < n; i++ {
		d, k := zzRawDate("r")
		r := klog.NewRecord(d)
		r.AddDuration(klog.NewDuration(0, i+1), nil) // identifies the record
		rs = append(rs, r)
		keys = append(keys, k)
	}
	asc := zz.Choose(2) == 0
	out := Sort(rs, asc)
	zz.Assert(len(out) == n, "sort-keeps-all-records")
	if len(out) != n {
		return
	}
	key := func(r klog.Record) int { return r.Date().Year()*10000 + r.Date().Month()*100 + r.Date().Day() }
	for i := 0; i+1 < n; i++ {
		if asc {
			zz.Assert(key(out[i]) <= key(out[i+1]), "sorted-ascending")
		} else {
			zz.Assert(key(out[i]) >= key(out[i+1]), "sorted-descending")
		}
	}
	// permutation: every identifier occurs exactly once
	for id := 1; id <= n; id++ {
		cnt := 0
		for _, r := range out {
			cnt += zz.IteInt(r.Entries()[0].Duration().InMinutes() == id, 1, 0)
		}
		zz.Assert(cnt == 1, "sort-is-a-permutation")
	}
	for i := range rs {
		zz.Assert(key(rs[i]) == keys[i], "input-not-reordered")
	}
}
