package service

import (
	"github.com/jotaen/klog/klog"
	zz "github.com/jotaen/klog/klog/zzverif"
)

// ZZ_C14_TagTotals: every tag's (and tag=value's) total is the sum of the durations
// of the entries that carry it (record-level tags apply to every entry); each entry
// counts at most once per tag.
func ZZ_C14_TagTotals() {
	specs := zzBuild(zz.Param("n"), zz.Param("e"))
	var rs []klog.Record
	for _, s := range specs {
		rs = append(rs, s.rec)
	}
	stats := AggregateTotalsByTags(rs...)
	expect := func(want int) (total int, count int) {
		for _, s := range specs {
			for j := range s.kinds {
				if zzHasTag(s.recTags, s.entTags[j], want) {
					if s.kinds[j] != 3 {
						total += s.mins[j]
					}
					count++
				}
			}
		}
		return
	}
	find := func(name, value string) *TagStats {
		for _, st := range stats {
			if st.Tag.Name() == name && st.Tag.Value() == value {
				return st
			}
		}
		return nil
	}
	for _, c := range []struct {
		want        int
		name, value string
	}{{1, "x", ""}, {2, "y", ""}, {4, "x", "v"}} {
		total, count := expect(c.want)
		st := find(c.name, c.value)
		if count == 0 {
			zz.Assert(st == nil, "absent-tag-has-no-row")
		} else {
			zz.Assert(st != nil, "present-tag-has-a-row")
			if st != nil {
				zz.Assert(st.Total.InMinutes() == total, "tag-total-is-sum-of-its-entries")
				zz.Assert(st.Count == count, "each-entry-counted-once-per-tag")
			}
		}
	}
	zz.Assert(len(stats) <= 3, "no-other-rows")
}
