package period

import (
	"github.com/jotaen/klog/klog"
	zz "github.com/jotaen/klog/klog/zzverif"
)

// ---------------------------------------------------------------------------
// Independent closed-form references (proleptic Gregorian calendar).
// ---------------------------------------------------------------------------

func refLeap(y int) bool { return zz.And(y%4 == 0, zz.Or(y%100 != 0, y%400 == 0)) }

func refDaysIn(y, m int) int {
	d := 31
	d = zz.IteInt(zz.Or(zz.Or(m == 4, m == 6), zz.Or(m == 9, m == 11)), 30, d)
	d = zz.IteInt(m == 2, zz.IteInt(refLeap(y), 29, 28), d)
	return d
}

// refDayNumber: days since 0000-03-01 (any fixed epoch works; only differences are used).
func refDayNumber(y, m, d int) int {
	// shift the year to start in March
	jf := zz.IteInt(m <= 2, 1, 0)
	yy := y - jf + 400 // keep positive for year 0
	mm := zz.IteInt(m <= 2, m+9, m-3)
	return 365*yy + yy/4 - yy/100 + yy/400 + (153*mm+2)/5 + d - 1
}

// refWeekday: Monday=1 .. Sunday=7 (Sakamoto's method).
func refWeekday(y, m, d int) int {
	t := [12]int{0, 3, 2, 5, 0, 3, 5, 1, 4, 6, 2, 4}
	yy := y - zz.IteInt(m < 3, 1, 0) + 400
	tm := 0
	for i := 1; i <= 12; i++ {
		tm = zz.IteInt(m == i, t[i-1], tm)
	}
	wd := (yy + yy/4 - yy/100 + yy/400 + tm + d) % 7 // 0 = Sunday
	return zz.IteInt(wd == 0, 7, wd)
}

func refOrdinal(y, m, d int) int {
	cum := [12]int{0, 31, 59, 90, 120, 151, 181, 212, 243, 273, 304, 334}
	o := 0
	for i := 1; i <= 12; i++ {
		o = zz.IteInt(m == i, cum[i-1], o)
	}
	o += d
	return o + zz.IteInt(zz.And(m > 2, refLeap(y)), 1, 0)
}

// p(y) of the ISO 8601 "long year" rule.
func refP(y int) int { yy := y + 400; return (yy + yy/4 - yy/100 + yy/400) % 7 }

func refWeeksIn(y int) int {
	return zz.IteInt(zz.Or(refP(y) == 4, refP(y-1) == 3), 53, 52)
}

// refISOWeek returns (week-year, week).
func refISOWeek(y, m, d int) (int, int) {
	w := (refOrdinal(y, m, d) - refWeekday(y, m, d) + 10) / 7
	under := w < 1
	over := w > refWeeksIn(y)
	wy := zz.IteInt(under, y-1, zz.IteInt(over, y+1, y))
	ww := zz.IteInt(under, refWeeksIn(y-1), zz.IteInt(over, 1, w))
	return wy, ww
}

// zzDate returns an arbitrary valid date of the century window plus its fields.
func zzDate(prefix string) (klog.Date, int, int, int) {
	// year window: [from, from+span-1]
	from, span := zz.Param("from"), zz.Param("span")
	y := zz.IntRange(prefix+"y", from, from+span-1)
	m := zz.IntRange(prefix+"m", 1, 12)
	d := zz.IntRange(prefix+"d", 1, 31)
	zz.Assume(d <= refDaysIn(y, m))
	dt, err := klog.NewDate(y, m, d)
	zz.Assert(err == nil, "valid-date-accepted")
	if err != nil {
		zz.Stop()
	}
	return dt, y, m, d
}

func dn(d klog.Date) int { return refDayNumber(d.Year(), d.Month(), d.Day()) }

// ZZ_C15_DateFacts: weekday, ISO week / week-year, quarter and day stepping.
func ZZ_C15_DateFacts() {
	dt, y, m, d := zzDate("")
	zz.Assert(dt.Weekday() == refWeekday(y, m, d), "weekday")
	wy, ww := dt.WeekNumber()
	ry, rw := refISOWeek(y, m, d)
	zz.Assert(wy == ry, "iso-week-year")
	zz.Assert(ww == rw, "iso-week-number")
	zz.Assert(dt.Quarter() == (m+2)/3, "quarter")
	// neighbours (where representable)
	if zz.Or(y > 0, zz.Or(m > 1, d > 1)) {
		p := dt.PlusDays(-1)
		zz.Assert(dn(p) == refDayNumber(y, m, d)-1, "minus-one-day")
	}
	if zz.Or(y < 9999, zz.Or(m < 12, d < 31)) {
		n := dt.PlusDays(1)
		zz.Assert(dn(n) == refDayNumber(y, m, d)+1, "plus-one-day")
		zz.Assert(n.IsAfterOrEqual(dt), "order-after")
		zz.Assert(!dt.IsAfterOrEqual(n), "order-strict")
	}
}

// ZZ_C15_Week: the week period is Monday..Sunday containing the date; the
// previous week ends the day before; the bucket hash packs (week-year, week).
func ZZ_C15_Week() {
	dt, y, m, d := zzDate("")
	// periods must be representable: skip the first/last week of the whole calendar
	zz.Assume(zz.Or(y > 0, zz.Or(m > 1, d > 14)))
	zz.Assume(zz.Or(y < 9999, zz.Or(m < 12, d < 25)))
	wd := refWeekday(y, m, d)
	w := NewWeekFromDate(dt)
	p := w.Period()
	n := refDayNumber(y, m, d)
	zz.Assert(dn(p.Since()) == n-(wd-1), "week-begins-monday")
	zz.Assert(dn(p.Until()) == n+(7-wd), "week-ends-sunday")
	zz.Assert(p.Since().Weekday() == 1, "week-since-is-monday")
	zz.Assert(p.Until().Weekday() == 7, "week-until-is-sunday")
	pp := w.Previous().Period()
	zz.Assert(dn(pp.Until())+1 == dn(p.Since()), "previous-week-adjacent")
	zz.Assert(dn(pp.Since())+7 == dn(p.Since()), "previous-week-length")
	// bucket: equals the packing of the reference ISO week
	ry, rw := refISOWeek(y, m, d)
	h := newBitMask()
	h.populate(uint32(rw), 53)
	h.populate(uint32(ry), 10000)
	zz.Assert(uint32(w.Hash()) == uint32(h.Value()), "week-hash-is-packed-iso-week")
}

// ZZ_C15_MonthQuarterYear: month / quarter / year periods and their predecessors.
func ZZ_C15_MonthQuarterYear() {
	dt, y, m, d := zzDate("")
	_ = d
	mp := NewMonthFromDate(dt).Period()
	zz.Assert(zz.And(mp.Since().Year() == y, zz.And(mp.Since().Month() == m, mp.Since().Day() == 1)), "month-begins-on-first")
	zz.Assert(zz.And(mp.Until().Year() == y, zz.And(mp.Until().Month() == m, mp.Until().Day() == refDaysIn(y, m))), "month-ends-on-last")
	q := (m + 2) / 3
	qp := NewQuarterFromDate(dt).Period()
	zz.Assert(zz.And(qp.Since().Year() == y, zz.And(qp.Since().Month() == 3*q-2, qp.Since().Day() == 1)), "quarter-begins")
	zz.Assert(zz.And(qp.Until().Year() == y, zz.And(qp.Until().Month() == 3*q, qp.Until().Day() == refDaysIn(y, 3*q))), "quarter-ends")
	yp := NewYearFromDate(dt).Period()
	zz.Assert(zz.And(yp.Since().Year() == y, zz.And(yp.Since().Month() == 1, yp.Since().Day() == 1)), "year-begins")
	zz.Assert(zz.And(yp.Until().Year() == y, zz.And(yp.Until().Month() == 12, yp.Until().Day() == 31)), "year-ends")
	// predecessors (not for the first periods of year 0000)
	if zz.Or(y > 0, m > 1) {
		pm := NewMonthFromDate(dt).Previous().Period()
		zz.Assert(dn(pm.Until())+1 == dn(mp.Since()), "previous-month-adjacent")
		zz.Assert(pm.Since().Day() == 1, "previous-month-begins-on-first")
	}
	if zz.Or(y > 0, q > 1) {
		pq := NewQuarterFromDate(dt).Previous().Period()
		zz.Assert(dn(pq.Until())+1 == dn(qp.Since()), "previous-quarter-adjacent")
	}
	if y > 0 {
		py := NewYearFromDate(dt).Previous().Period()
		zz.Assert(dn(py.Until())+1 == dn(yp.Since()), "previous-year-adjacent")
	}
}

// ZZ_C15_Hashes: two dates share a day/month/quarter/year bucket iff the
// corresponding fields agree; the packing of (week, week-year) is injective.
// (Hashes only read the date's fields, so the fields range freely.)
func ZZ_C15_Hashes() {
	y1, y2 := zz.IntRange("y1", 0, 9999), zz.IntRange("y2", 0, 9999)
	m1, m2 := zz.IntRange("m1", 1, 12), zz.IntRange("m2", 1, 12)
	d1, d2 := zz.IntRange("d1", 1, 31), zz.IntRange("d2", 1, 31)
	a, b := klog.ZZRawDate(y1, m1, d1), klog.ZZRawDate(y2, m2, d2)
	zz.Assert(zz.Iff(NewDayFromDate(a).Hash() == NewDayFromDate(b).Hash(), zz.And(y1 == y2, zz.And(m1 == m2, d1 == d2))), "day-hash")
	zz.Assert(zz.Iff(NewMonthFromDate(a).Hash() == NewMonthFromDate(b).Hash(), zz.And(y1 == y2, m1 == m2)), "month-hash")
	zz.Assert(zz.Iff(NewYearFromDate(a).Hash() == NewYearFromDate(b).Hash(), y1 == y2), "year-hash")
	zz.Assert(zz.Iff(NewQuarterFromDate(a).Hash() == NewQuarterFromDate(b).Hash(), zz.And(y1 == y2, (m1+2)/3 == (m2+2)/3)), "quarter-hash")
	// week packing: week 1..53, week-year -1..10000 cannot occur below 0 for valid dates except 0000-01-01..02 (week-year -1 is excluded)
	w1, w2 := zz.IntRange("w1", 1, 53), zz.IntRange("w2", 1, 53)
	wy1, wy2 := zz.IntRange("wy1", 0, 10000), zz.IntRange("wy2", 0, 10000)
	h1, h2 := newBitMask(), newBitMask()
	h1.populate(uint32(w1), 53)
	h1.populate(uint32(wy1), 10000)
	h2.populate(uint32(w2), 53)
	h2.populate(uint32(wy2), 10000)
	zz.Assert(zz.Iff(h1.Value() == h2.Value(), zz.And(w1 == w2, wy1 == wy2)), "week-packing-injective")
}

// ZZ_C15_Pattern: period patterns of length n (year digits restricted to the
// window) are accepted iff they are one of YYYY, YYYY-MM, YYYY-Qq, YYYY-Www /
// YYYY-Ww with an existing month / quarter / ISO week, and denote that period.
func ZZ_C15_Pattern() {
	n := zz.Param("n")
	c := zz.Param("century")
	s := zz.String("s", n)
	if n >= 2 {
		zz.Assume(s[0] == byte('0'+c/10))
		zz.Assume(s[1] == byte('0'+c%10))
	}
	p, err := NewPeriodFromPatternString(s)
	dig := func(i int) bool { return zz.And(s[i] >= '0', s[i] <= '9') }
	val := func(i int) int { return int(s[i] - '0') }
	ok := false
	ry, rm1, rd1, rm2, rd2 := 0, 0, 0, 0, 0 // expected since (ry,rm1,rd1) .. until (ry,rm2,rd2) for Y/M/Q shapes
	isWeek := false
	rweek := 0
	if n >= 4 {
		ry = val(0)*1000 + val(1)*100 + val(2)*10 + val(3)
	}
	yearOK := n >= 4 && zz.And(zz.And(dig(0), dig(1)), zz.And(dig(2), dig(3)))
	switch n {
	case 4:
		ok = yearOK
		rm1, rd1, rm2, rd2 = 1, 1, 12, 31
	case 7:
		// YYYY-MM or YYYY-Qq?? (Q form has length 7: "2020-Q1") or YYYY-Ww ("2020-W5")
		mm := val(5)*10 + val(6)
		isMonth := zz.And(zz.And(yearOK, s[4] == '-'), zz.And(zz.And(dig(5), dig(6)), zz.And(mm >= 1, mm <= 12)))
		qq := val(6)
		isQuarter := zz.And(zz.And(yearOK, s[4] == '-'), zz.And(s[5] == 'Q', zz.And(dig(6), zz.And(qq >= 1, qq <= 4))))
		w1 := val(6)
		isW := zz.And(zz.And(yearOK, s[4] == '-'), zz.And(s[5] == 'W', zz.And(dig(6), w1 >= 1)))
		ok = zz.Or(isMonth, zz.Or(isQuarter, isW))
		rm1 = zz.IteInt(isMonth, mm, 3*qq-2)
		rm2 = zz.IteInt(isMonth, mm, 3*qq)
		rd1 = 1
		rd2 = refDaysIn(ry, rm2)
		isWeek = isW
		rweek = w1
	case 8:
		ww := val(6)*10 + val(7)
		isW := zz.And(zz.And(yearOK, s[4] == '-'), zz.And(s[5] == 'W', zz.And(zz.And(dig(6), dig(7)), zz.And(ww >= 1, ww <= refWeeksIn(ry)))))
		ok = isW
		isWeek = isW
		rweek = ww
	}
	zz.Observe("accepted", err == nil)
	zz.Assert(zz.Iff(err == nil, ok), "pattern-accept-iff-valid")
	if err != nil {
		return
	}
	if isWeek {
		wy, ww := p.Since().WeekNumber()
		zz.Assert(zz.And(wy == ry, ww == rweek), "week-pattern-denotes-week")
		zz.Assert(p.Since().Weekday() == 1, "week-pattern-begins-monday")
		zz.Assert(dn(p.Until()) == dn(p.Since())+6, "week-pattern-length")
	} else {
		zz.Assert(zz.And(p.Since().Year() == ry, zz.And(p.Since().Month() == rm1, p.Since().Day() == rd1)), "pattern-since")
		zz.Assert(zz.And(p.Until().Year() == ry, zz.And(p.Until().Month() == rm2, p.Until().Day() == rd2)), "pattern-until")
	}
}
