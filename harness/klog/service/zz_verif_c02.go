package service

import (
	gotime "time"

	"github.com/jotaen/klog/klog"
	zz "github.com/jotaen/klog/klog/zzverif"
)

// zzBuildRecords builds nrec records with nent entries each; the kind of every
// entry (duration / range / open range) and the presence of a should-total are
// path choices, all values are symbolic.  It returns the records and the
// reference total / should-total computed from the specification's rules.
func zzBuildRecords(nrec, nent int, dates []klog.Date) ([]klog.Record, int, int, []int) {
	var rs []klog.Record
	refTotal, refShould := 0, 0
	var openStart []int // per record: start offset of the open range or -100000
	for r := 0; r < nrec; r++ {
		rec := klog.NewRecord(dates[r])
		if zz.Choose(2) == 1 {
			s := zz.IntRange("should", -1000000000, 1000000000)
			rec.SetShouldTotal(klog.NewDuration(0, s))
			refShould += s
		}
		open := -100000
		for e := 0; e < nent; e++ {
			switch zz.Choose(3) {
			case 0:
				d := zz.IntRange("dur", -1000000000, 1000000000)
				rec.AddDuration(klog.NewDuration(0, d), nil)
				refTotal += d
			case 1:
				a, offA := klog.ZZSymTime("a")
				b, offB := klog.ZZSymTime("b")
				zz.Assume(offB >= offA)
				rg, err := klog.NewRange(a, b)
				zz.Assert(err == nil, "ordered-range-accepted")
				rec.AddRange(rg, nil)
				refTotal += offB - offA
			case 2:
				a, offA := klog.ZZSymTime("o")
				err := rec.Start(klog.NewOpenRange(a), nil)
				zz.Assert(zz.Iff(err == nil, open == -100000), "single-open-range")
				if err == nil {
					open = offA
				}
			}
		}
		openStart = append(openStart, open)
		rs = append(rs, rec)
	}
	return rs, refTotal, refShould, openStart
}

func zzDate(y, m, d int) klog.Date {
	dt, err := klog.NewDate(y, m, d)
	if err != nil {
		panic(err)
	}
	return dt
}

// ZZ_C02_Eval: total = sum of signed durations + range lengths (shifted times on
// the adjacent days), open ranges 0; should-total sum; diff = total - should.
func ZZ_C02_Eval() {
	nrec, nent := zz.Param("nrec"), zz.Param("nent")
	// duplicate dates on purpose: records stay separate
	dates := []klog.Date{zzDate(2020, 1, 1), zzDate(2020, 1, 1), zzDate(2019, 12, 31)}
	rs, refTotal, refShould, _ := zzBuildRecords(nrec, nent, dates)
	total := Total(rs...)
	should := ShouldTotalSum(rs...)
	diff := Diff(should, total)
	zz.Observe("total", total.InMinutes())
	zz.Assert(total.InMinutes() == refTotal, "total")
	zz.Assert(should.InMinutes() == refShould, "should-total-sum")
	zz.Assert(diff.InMinutes() == refTotal-refShould, "diff")
	// per-record totals add up to the overall total (records are not merged)
	sum := 0
	for _, r := range rs {
		sum += Total(r).InMinutes()
	}
	zz.Assert(sum == refTotal, "per-record-totals-add-up")
}

// ZZ_C02_EvalNow: closing open ranges at an instant adds now-start for records
// dated today or yesterday and refuses everything else.
func ZZ_C02_EvalNow() {
	nowH := zz.IntRange("nowH", 0, 23)
	nowM := zz.IntRange("nowM", 0, 59)
	nowMin := nowH*60 + nowM
	now := gotime.Date(2020, 3, 1, nowH, nowM, 0, 0, gotime.UTC) // day after a leap day
	// record date relative to "today": +1, 0, -1, -2 days
	rel := zz.Choose(4)
	date := []klog.Date{zzDate(2020, 3, 2), zzDate(2020, 3, 1), zzDate(2020, 2, 29), zzDate(2020, 2, 28)}[rel]
	rec := klog.NewRecord(date)
	d := zz.IntRange("dur", -100000, 100000)
	rec.AddDuration(klog.NewDuration(0, d), nil)
	start, offS := klog.ZZSymTime("s")
	_ = rec.Start(klog.NewOpenRange(start), nil)
	before := Total(rec).InMinutes()
	zz.Assert(before == d, "open-range-counts-zero")
	var closed bool
	var err error
	panicked := zz.Panics(func() { closed, err = CloseOpenRanges(now, rec) })
	zz.Assert(!panicked, "close-no-panic")
	if panicked {
		return
	}
	nowOff := nowMin
	if rel == 2 {
		nowOff = nowMin + 1440
	}
	closeable := zz.And(rel == 1 || rel == 2, nowOff >= offS)
	zz.Observe("closed", err == nil)
	zz.Assert(zz.Iff(err == nil, closeable), "closeable-iff-today-or-yesterday-and-not-before-start")
	if err == nil {
		zz.Assert(closed, "reports-closed")
		zz.Assert(Total(rec).InMinutes() == d+nowOff-offS, "now-adds-elapsed-minutes")
		zz.Assert(rec.OpenRange() == nil, "open-range-gone")
	}
}

// ZZ_C02_EvalNowMany: several records with open ranges (yesterday's and today's,
// in both file orders, optionally two for the same day) closed at one instant:
// every record's range is closed relative to its OWN date.
func ZZ_C02_EvalNowMany() {
	nowH := zz.IntRange("nowH", 0, 23)
	nowM := zz.IntRange("nowM", 0, 59)
	nowMin := nowH*60 + nowM
	now := gotime.Date(2020, 3, 1, nowH, nowM, 0, 0, gotime.UTC)
	today, yesterday := zzDate(2020, 3, 1), zzDate(2020, 2, 29)
	order := zz.Choose(4) // which dates the two records carry
	dates := [][2]klog.Date{{yesterday, today}, {today, yesterday}, {yesterday, yesterday}, {today, today}}[order]
	var rs []klog.Record
	var starts []int
	for i := 0; i < 2; i++ {
		r := klog.NewRecord(dates[i])
		s, off := klog.ZZSymTime("s")
		_ = r.Start(klog.NewOpenRange(s), nil)
		rs = append(rs, r)
		starts = append(starts, off)
	}
	rel := func(i int) int {
		if dates[i].IsEqualTo(yesterday) {
			return nowMin + 1440
		}
		return nowMin
	}
	closed, err := CloseOpenRanges(now, rs...)
	closeable := zz.And(rel(0) >= starts[0], rel(1) >= starts[1])
	zz.Observe("ok", err == nil)
	zz.Assert(zz.Iff(err == nil, closeable), "all-closeable-iff-no-start-after-now")
	if err == nil {
		zz.Assert(closed, "reports-closed")
		zz.Assert(Total(rs[0]).InMinutes() == rel(0)-starts[0], "first-record-closed-relative-to-its-own-date")
		zz.Assert(Total(rs[1]).InMinutes() == rel(1)-starts[1], "second-record-closed-relative-to-its-own-date")
	}
}
