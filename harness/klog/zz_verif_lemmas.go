package klog

import (
	"github.com/jotaen/safemath/safemath"

	zz "github.com/jotaen/klog/klog/zzverif"
)

// ZZ_Lemma_SafemathAdd: the engine's summary of safemath.Add equals the real code for all int64 pairs.
func ZZ_Lemma_SafemathAdd() {
	a, b := zz.Int("a"), zz.Int("b")
	r1, e1 := safemath.Add(a, b)
	var r2 int
	var e2 error
	zz.NoSummaries(func() { r2, e2 = safemath.Add(a, b) })
	zz.Assert(zz.Iff(e1 == nil, e2 == nil), "add-summary-error")
	zz.Assert(r1 == r2, "add-summary-value")
}

// ZZ_Lemma_SafemathMul: same for Multiply with the constant factors klog uses.
func ZZ_Lemma_SafemathMul() {
	a := zz.Int("a")
	for _, k := range []int{60, -60, 1, 0, -1} {
		r1, e1 := safemath.Multiply(a, k)
		var r2 int
		var e2 error
		zz.NoSummaries(func() { r2, e2 = safemath.Multiply(a, k) })
		zz.Assert(zz.Iff(e1 == nil, e2 == nil), "mul-summary-error")
		zz.Assert(r1 == r2, "mul-summary-value")
	}
}
